"""Translator: check_options() of src/main.c, the defaults of flexinit() and the simple `%option`
actions of src/scan.l  ->  lean/FlexVerif/Gen/Options.lean  (a `Stmt` of Opt/Lang.lean).

The C subset understood: blocks, if/else, `flexerror(_("..."))`, `lwarn(_("..."))`, (chained)
assignments of constants to option variables; conditions built from option variables, calls
without arguments, `!`, `&&`, `||`, `==`, `!=` against constants.  Anything else is *opaque*: it is
left out, and the translator refuses (raises) if an opaque statement contains `flexerror` or assigns
to a variable the translated part reads or writes — so the part that is left out can neither refuse
nor change what the modelled part sees.
"""
import os, re


class TranslateError(Exception):
    pass


TOK = re.compile(r'\s*(?:(/\*.*?\*/|//[^\n]*)|("(?:[^"\\]|\\.)*"|\'(?:[^\'\\]|\\.)*\')|([A-Za-z_][A-Za-z_0-9]*(?:(?:\.|->)[A-Za-z_][A-Za-z_0-9]*)*)|(\d+)|'
                 r'(&&|\|\||==|!=|\+=|-=|\+\+|--|<=|>=|[-+*/%<>=!(){};,?:\[\]&|.]))', re.S)


def tokenize(text):
    toks = []
    i = 0
    n = len(text)
    while i < n:
        m = TOK.match(text, i)
        if not m:
            if text[i:].strip() == '':
                break
            raise TranslateError('cannot tokenize at: %r' % text[i:i + 40])
        i = m.end()
        if m.group(1):
            continue
        if m.group(2):
            toks.append(('str', m.group(2)))
        elif m.group(3):
            toks.append(('id', m.group(3)))
        elif m.group(4):
            toks.append(('num', int(m.group(4))))
        else:
            toks.append(('op', m.group(5)))
    return toks


def strip_if0(text):
    out = []
    depth = 0
    for l in text.split('\n'):
        s = l.strip()
        if depth == 0 and re.match(r'#\s*if\s+0\b', s):
            depth = 1
            continue
        if depth:
            if re.match(r'#\s*if', s):
                depth += 1
            elif re.match(r'#\s*endif', s):
                depth -= 1
            continue
        out.append(l)
    return '\n'.join(out)


def function_body(text, name):
    m = re.search(r'^(?:[A-Za-z_][\w \t\*]*\s+)?' + re.escape(name) + r'\s*\([^)]*\)\s*\{', text, re.M)
    if not m:
        raise TranslateError('function %s not found' % name)
    i = m.end()
    depth = 1
    j = i
    while depth:
        c = text[j]
        if c == '"':
            j += 1
            while text[j] != '"':
                j += 2 if text[j] == '\\' else 1
        elif c == '/' and text[j + 1] == '*':
            j = text.index('*/', j) + 1
        elif c == '{':
            depth += 1
        elif c == '}':
            depth -= 1
        j += 1
    return text[i:j - 1]


QUIET = set()
DEFINE_FUNCS = ('visible_define', 'visible_define_str', 'visible_define_int', 'out_m4_define')


class Parser:
    """statements: ('block', [s]), ('if', cond, then, else|None), ('err', msg), ('warn', msg),
    ('assign', [lhs...], rhs_expr), ('opaque', text).
    expressions: ('id', name), ('call', name), ('num', k), ('not', e), ('and', a, b), ('or', a, b),
    ('eq', a, b), ('ne', a, b), ('cond', c, a, b), ('assign', lhs, e)"""

    def __init__(self, toks):
        self.t = toks
        self.i = 0

    def peek(self, k=0):
        return self.t[self.i + k] if self.i + k < len(self.t) else ('eof', None)

    def next(self):
        x = self.peek()
        self.i += 1
        return x

    def accept(self, kind, val=None):
        x = self.peek()
        if x[0] == kind and (val is None or x[1] == val):
            self.i += 1
            return True
        return False

    def expect(self, kind, val=None):
        if not self.accept(kind, val):
            raise TranslateError('expected %s %s, got %r' % (kind, val, self.peek()))

    # ---- statements
    def stmts_until_end(self):
        out = []
        while self.peek()[0] != 'eof':
            out.append(self.stmt())
        return out

    def stmt(self):
        x = self.peek()
        if x == ('op', '{'):
            self.next()
            out = []
            while not self.accept('op', '}'):
                out.append(self.stmt())
            return ('block', out)
        if x == ('id', 'if'):
            start = self.i
            self.next()
            self.expect('op', '(')
            try:
                c = self.expr()
                self.expect('op', ')')
            except TranslateError:
                self.i = start
                return self.opaque_stmt()
            th = self.stmt()
            el = None
            if self.accept('id', 'else'):
                el = self.stmt()
            return ('if', c, th, el)
        if x[0] == 'id' and x[1] in ('flexerror', 'lwarn') and self.peek(1) == ('op', '('):
            kind = 'err' if x[1] == 'flexerror' else 'warn'
            self.next(); self.next()
            if self.accept('id', '_'):
                self.expect('op', '(')
                msg = self.strings()
                self.expect('op', ')')
            else:
                msg = self.strings()
            self.expect('op', ')')
            self.expect('op', ';')
            return (kind, msg)
        if x[0] == 'id' and x[1] in DEFINE_FUNCS and self.peek(1) == ('op', '(') and self.peek(2)[0] == 'str':
            self.next(); self.next()
            name = eval(self.next()[1])
            depth = 1
            while depth:                                  # the value, if any, is not modelled
                y = self.next()
                if y[0] == 'eof':
                    raise TranslateError('unterminated call')
                if y == ('op', '('):
                    depth += 1
                elif y == ('op', ')'):
                    depth -= 1
            self.expect('op', ';')
            return ('define', name, x[1])
        # assignment chain  a = b = c ;
        save = self.i
        try:
            e = self.expr()
            if e[0] == 'assign' and self.accept('op', ';'):
                lhs = []
                while e[0] == 'assign':
                    lhs.append(e[1])
                    e = e[2]
                return ('assign', lhs, e)
        except TranslateError:
            pass
        self.i = save
        return self.opaque_stmt()

    def strings(self):
        s = ''
        if self.peek()[0] != 'str':
            raise TranslateError('message is not a string literal: %r' % (self.peek(),))
        while self.peek()[0] == 'str':
            s += eval(self.next()[1])          # a C string literal without exotic escapes
        return s

    def opaque_stmt(self):
        """skip one statement, balanced"""
        start = self.i
        x = self.peek()
        if x[0] == 'id' and x[1] in ('for', 'while', 'if', 'switch'):
            self.next()
            self.skip_parens()
            self.opaque_stmt()
            if x[1] == 'if' and self.accept('id', 'else'):
                self.opaque_stmt()
        elif x == ('op', '{'):
            self.next()
            while not self.accept('op', '}'):
                self.opaque_stmt()
        else:
            depth = 0
            while True:
                y = self.next()
                if y[0] == 'eof':
                    raise TranslateError('unterminated statement')
                if y[0] == 'op' and y[1] in '([{':
                    depth += 1
                elif y[0] == 'op' and y[1] in ')]}':
                    depth -= 1
                elif y == ('op', ';') and depth == 0:
                    break
        return ('opaque', self.t[start:self.i])

    def skip_parens(self):
        self.expect('op', '(')
        depth = 1
        while depth:
            y = self.next()
            if y[0] == 'eof':
                raise TranslateError('unbalanced parentheses')
            if y == ('op', '('):
                depth += 1
            elif y == ('op', ')'):
                depth -= 1

    # ---- expressions
    def expr(self):
        e = self.ternary()
        if self.peek() == ('op', '='):
            if e[0] != 'id':
                raise TranslateError('assignment to a non-variable')
            self.next()
            return ('assign', e[1], self.expr())
        return e

    def ternary(self):
        c = self.lor()
        if self.accept('op', '?'):
            a = self.expr()
            self.expect('op', ':')
            b = self.ternary()
            return ('cond', c, a, b)
        return c

    def lor(self):
        a = self.land()
        while self.accept('op', '||'):
            a = ('or', a, self.land())
        return a

    def land(self):
        a = self.equality()
        while self.accept('op', '&&'):
            a = ('and', a, self.equality())
        return a

    def equality(self):
        a = self.unary()
        while True:
            if self.accept('op', '=='):
                a = ('eq', a, self.unary())
            elif self.accept('op', '!='):
                a = ('ne', a, self.unary())
            else:
                return a

    def unary(self):
        if self.accept('op', '!'):
            return ('not', self.unary())
        if self.peek() == ('op', '(') and self.peek(1)[0] == 'id' and self.peek(2) == ('op', ')') and \
                self.peek(1)[1] in ('trit', 'int', 'bool'):
            self.next(); self.next(); self.next()        # a cast between bool / trit / int: value kept
            return self.unary()
        return self.primary()

    def primary(self):
        x = self.next()
        if x == ('op', '('):
            e = self.expr()
            self.expect('op', ')')
            return e
        if x[0] == 'num':
            return ('num', x[1])
        if x[0] == 'id':
            if self.peek() == ('op', '(') and self.peek(1) == ('op', ')'):
                self.next(); self.next()
                return ('call', x[1])
            if self.peek() == ('op', '('):
                raise TranslateError('call with arguments: %s' % x[1])
            return ('id', x[1])
        raise TranslateError('unexpected token %r' % (x,))


class Translation:
    def __init__(self, consts):
        self.consts = dict(consts)
        self.fields = []          # names in order of first use
        self.msgs = []
        self.opaque = []          # token lists
        self.volatile = set()     # variables some untranslated statement assigns: conditions on them are not translated

    def fld(self, name):
        if name not in self.fields:
            self.fields.append(name)
        return self.fields.index(name)

    def msg(self, s):
        if s not in self.msgs:
            self.msgs.append(s)
        return self.msgs.index(s)

    def const(self, e, env=None):
        """value of a constant expression (with `env`: values for names like option_sense)"""
        k = e[0]
        if k == 'num':
            return e[1]
        if k == 'id':
            if env and e[1] in env:
                return env[e[1]]
            if e[1] in self.consts:
                return self.consts[e[1]]
            raise TranslateError('not a constant: %s' % e[1])
        if k == 'not':
            return 0 if self.const(e[1], env) else 1
        if k == 'cond':
            return self.const(e[2], env) if self.const(e[1], env) else self.const(e[3], env)
        if k in ('and', 'or', 'eq', 'ne'):
            a, b = self.const(e[1], env), self.const(e[2], env)
            return int({'and': bool(a) and bool(b), 'or': bool(a) or bool(b), 'eq': a == b, 'ne': a != b}[k])
        raise TranslateError('not a constant expression: %r' % (e,))

    def is_const(self, e, env=None):
        try:
            self.const(e, env)
            return True
        except TranslateError:
            return False

    def cond(self, e, env=None):
        """-> Lean Cond term"""
        if self.is_const(e, env):
            return '.tt' if self.const(e, env) else '.ff'
        k = e[0]
        if k == 'id' and e[1] in self.volatile:
            raise TranslateError('condition on %s, which an untranslated statement assigns' % e[1])
        if k == 'id':
            return '(.truthy %d)' % self.fld(e[1])
        if k == 'call':
            return '(.truthy %d)' % self.fld(e[1] + '()')
        if k == 'not':
            return '(.not %s)' % self.cond(e[1], env)
        if k in ('and', 'or'):
            return '(.%s %s %s)' % (k, self.cond(e[1], env), self.cond(e[2], env))
        if k in ('eq', 'ne'):
            a, b = e[1], e[2]
            if self.is_const(a, env):
                a, b = b, a
            if not self.is_const(b, env) or a[0] not in ('id', 'call'):
                raise TranslateError('comparison is not variable-against-constant: %r' % (e,))
            name = a[1] + ('()' if a[0] == 'call' else '')
            if name in self.volatile:
                raise TranslateError('condition on %s, which an untranslated statement assigns' % name)
            t = '(.eq %d %s)' % (self.fld(name), lean_int(self.const(b, env)))
            return t if k == 'eq' else '(.not %s)' % t
        raise TranslateError('condition not understood: %r' % (e,))

    def stmt(self, s, env=None):
        """-> Lean Stmt term, or None for an opaque statement"""
        k = s[0]
        if k == 'block':
            parts = [self.stmt(x, env) for x in s[1]]
            parts = [p for p in parts if p is not None]
            return seq(parts)
        if k == 'err':
            return '(.err %d)' % self.msg(s[1])
        if k == 'warn':
            return '(.warn %d)' % self.msg(s[1])
        if k == 'assign':
            try:
                v = self.const(s[2], env)
            except TranslateError:
                self.opaque.append(('assign', s[1]))      # not a constant: must not concern a modelled variable
                return None
            return seq(['(.set %d %s)' % (self.fld(l), lean_int(v)) for l in reversed(s[1])])
        if k == 'if':
            c = s[1]
            pre = []
            if c[0] == 'assign':                       # if ((x = e)) ...
                v = self.const(c[2], env)
                pre.append('(.set %d %s)' % (self.fld(c[1]), lean_int(v)))
                c = ('num', v)
            try:
                ctext = self.cond(c, env)
            except TranslateError:
                self.opaque.append(('ast', s))              # the whole statement is left out
                return seq(pre) if pre else None
            th = self.stmt(s[2], env)
            el = self.stmt(s[3], env) if s[3] is not None else None
            if th is None and el is None:
                self.opaque.append(('if-without-modelled-effect', s))
                return seq(pre) if pre else None
            t = '(.ite %s %s %s)' % (ctext, th or '.skip', el or '.skip')
            return seq(pre + [t])
        if k == 'define':
            if len(s) > 2 and s[2] == 'out_m4_define':
                QUIET.add(s[1])            # defined without the `/* NAME */` echo in the scanner
            return '(.set %d 1)' % self.fld('sym:' + s[1])
        if k == 'opaque':
            self.opaque.append(('stmt', s[1]))
            return None
        raise TranslateError('statement kind %s' % k)


def seq(parts):
    if not parts:
        return '.skip'
    t = parts[-1]
    for p in reversed(parts[:-1]):
        t = '(.seq %s %s)' % (p, t)
    return t


def lean_int(k):
    return '(%d)' % k if k < 0 else str(k)


def flat_tokens(x):
    """all tokens inside an opaque record"""
    out = []
    if isinstance(x, tuple) and len(x) == 2 and isinstance(x[0], str) and x[0] in ('str', 'id', 'num', 'op') and not isinstance(x[1], (list, tuple)):
        return [x]
    if isinstance(x, (list, tuple)):
        for y in x:
            out += flat_tokens(y)
    return out


def check_opaque(tr, what, may_refuse=False):
    """what is left out may neither refuse (unless `may_refuse`: then only what the program *defines*
    is claimed, not that it gets through) nor assign to a modelled variable; returns the m4 symbols
    defined inside statements that were left out"""
    lost = set()

    def walk(a):
        if not isinstance(a, tuple):
            return
        if a and a[0] == 'define':
            lost.add(a[1])
        elif a and a[0] == 'assign' and isinstance(a[1], list):
            for l in a[1]:
                if l in tr.fields:
                    tr.newly_volatile.add(l)
        elif a and a[0] == 'err' and not may_refuse:
            raise TranslateError('%s: a statement that was not understood calls flexerror' % what)
        elif a and a[0] == 'opaque':
            scan_tokens(flat_tokens(a[1]))
        for y in a[1:] if a else ():
            if isinstance(y, tuple):
                walk(y)
            elif isinstance(y, list):
                for z in y:
                    walk(z)

    def scan_tokens(toks):
        for i, t in enumerate(toks):
            if t == ('id', 'flexerror') and not may_refuse:
                raise TranslateError('%s: a statement that was not understood calls flexerror' % what)
            if t[0] == 'id' and t[1] in DEFINE_FUNCS and i + 2 < len(toks) and toks[i + 2][0] == 'str':
                lost.add(eval(toks[i + 2][1]))
            if t[0] == 'id' and t[1] in tr.fields and i + 1 < len(toks) and toks[i + 1][0] == 'op' and \
                    toks[i + 1][1] in ('=', '+=', '-=', '++', '--'):
                tr.newly_volatile.add(t[1])

    tr.newly_volatile = set()
    for kind, body in tr.opaque:
        if kind == 'ast':
            walk(body)
            continue
        if kind == 'assign':
            for l in body:
                if l in tr.fields:
                    tr.newly_volatile.add(l)
        toks = flat_tokens(body) if kind == 'stmt' else None
        if toks is None:
            continue
        scan_tokens(toks)
    return lost


def c_constants(flexdef):
    consts = {'true': 1, 'false': 0, 'NULL': 0}
    m = re.search(r'typedef\s+enum\s+trit_t\s*\{(.*?)\}', flexdef, re.S)
    if not m:
        raise TranslateError('enum trit_t not found')
    for name, val in re.findall(r'(\w+)\s*=\s*(-?\d+)', m.group(1)):
        consts[name] = int(val)
    for name in ('CSIZE', 'DEFAULT_CSIZE'):
        m = re.search(r'#\s*define\s+' + name + r'\s+(\d+)', flexdef)
        if not m:
            raise TranslateError('#define %s not found' % name)
        consts[name] = int(m.group(1))
    return consts


def field_types(flexdef):
    types = {}
    for sname, pre in (('ctrl_bundle_t', 'ctrl.'), ('env_bundle_t', 'env.')):
        m = re.search(r'struct\s+' + sname + r'\s*\{(.*?)\n\}', flexdef, re.S)
        if not m:
            continue
        for ty, name in re.findall(r'^\s*((?:const\s+)?(?:unsigned\s+)?\w+(?:\s*\*)?)\s+(\w+)\s*;', m.group(1), re.M):
            types[pre + name] = ty.strip()
    for ty, names in re.findall(r'^extern\s+(bool|int|trit)\s+([^;()]+);', flexdef, re.M):
        for n in names.split(','):
            types[n.strip()] = ty
    return types


def option_actions(scan_l):
    """(names, action text) of the <OPTION> rules of scan.l"""
    m = re.search(r'^<OPTION>\{\n(.*?)^\}', scan_l, re.S | re.M)
    if not m:
        raise TranslateError('<OPTION> scope not found in scan.l')
    lines = m.group(1).split('\n')
    out = []
    i = 0
    while i < len(lines):
        l = lines[i]
        i += 1
        mm = re.match(r'^\t("[^"]+"|[A-Za-z0-9_|()?+-]+)\s+(.*)$', l)
        if not mm:
            continue
        pat, act = mm.group(1), mm.group(2)
        if not re.match(r'^"?[a-z0-9]', pat):
            continue
        if act.count('{') > act.count('}'):
            while i < len(lines) and act.count('{') > act.count('}'):
                act += '\n' + lines[i]
                i += 1
        names = [pat.strip('"')] if pat.startswith('"') else pat.split('|')
        if names == ['no']:
            continue          # the prefix that flips option_sense
        if not pat.startswith('"') and any(re.search(r'[()?+\[\]]', n) for n in names):
            continue
        out.append((names, act))
    return out


def generate(src):
    """-> (lean text, info dict); raises TranslateError"""
    main_c = strip_if0(open(os.path.join(src, 'main.c'), errors='replace').read())
    flexdef = open(os.path.join(src, 'flexdef.h'), errors='replace').read()
    scan_l = open(os.path.join(src, 'scan.l'), errors='replace').read()
    consts = c_constants(flexdef)
    tr = Translation(consts)
    # ---- check_options
    def translate_fn(name, may_refuse):
        """translate a function body; variables that a statement left out assigns are *volatile*: a
        condition on one is not translated either (fixed point)"""
        stmts = Parser(tokenize(function_body(main_c, name))).stmts_until_end()
        volatile = set()
        nfields, nmsgs = len(tr.fields), len(tr.msgs)
        for _round in range(8):
            del tr.fields[nfields:]
            del tr.msgs[nmsgs:]
            t2 = Translation(consts)
            t2.fields, t2.msgs, t2.volatile = tr.fields, tr.msgs, volatile
            prog_text = t2.stmt(('block', stmts))
            lost = check_opaque(t2, name, may_refuse=may_refuse)
            if t2.newly_volatile <= volatile:
                return prog_text, lost, volatile, len(t2.opaque)
            volatile |= t2.newly_volatile
        raise TranslateError('%s: no fixed point for the variables assigned by untranslated statements' % name)

    prog, _lost0, volatile0, nopaque = translate_fn('check_options', False)
    nopaque_check = nopaque
    # ---- option actions (sense = true / false)
    effects = []
    unmodelled = []
    for names, act in option_actions(scan_l):
        try:
            st = Parser(tokenize(act if act.strip().startswith('{') else '{' + act + '}')).stmts_until_end()
            sub = Translation(consts)
            sub.fields, sub.msgs = tr.fields, tr.msgs
            on = sub.stmt(('block', st), {'option_sense': 1})
            off = sub.stmt(('block', st), {'option_sense': 0})
            if sub.opaque:
                raise TranslateError('opaque part')
            for n in names:
                effects.append((n, on, off))
        except TranslateError as e:
            unmodelled += names
    # ---- defaults: memset 0, then the assignments at the head of flexinit
    fbody = function_body(main_c, 'flexinit')
    head = fbody.split('sawcmpflag = false')[0]
    defaults = {}
    for s in Parser(tokenize(head)).stmts_until_end():
        if s[0] == 'assign':
            try:
                v = tr.const(s[2])
            except TranslateError:
                continue
            for l in s[1]:
                defaults[l] = v
    if 'is_default_backend()' in tr.fields:
        defaults['is_default_backend()'] = 1      # skeletons.c: `backend = &backends[0]` until --emit says otherwise
    # ---- readin(): which m4 symbols the skeleton gets to see
    defs_prog, lost, volatile, _n = translate_fn('readin', True)
    sym_fields = [n for n in tr.fields if n.startswith('sym:')]
    defs_prog = seq(['(.set %d 0)' % tr.fields.index(n) for n in sym_fields] + [defs_prog])   # nothing is defined before
    modelled_syms = [n for n in sym_fields if n[4:] not in lost]
    pairs = []
    for n in modelled_syms:
        m = re.match(r'sym:(M4_MODE|M4_YY)_NO_(.+)$', n)
        if m and 'sym:%s_%s' % (m.group(1), m.group(2)) in modelled_syms:
            pairs.append((tr.fields.index('sym:%s_%s' % (m.group(1), m.group(2))), tr.fields.index(n)))
    # ---- option variables first, m4 symbols after them (symBase): a symbol is then recognised by its number
    order = [n for n in tr.fields if not n.startswith('sym:')] + [n for n in tr.fields if n.startswith('sym:')]
    remap = {tr.fields.index(n): i for i, n in enumerate(order)}

    def renum(text):
        return re.sub(r'\(\.(truthy|eq|set) (\d+)', lambda m: '(.%s %d' % (m.group(1), remap[int(m.group(2))]), text)
    prog, defs_prog = renum(prog), renum(defs_prog)
    effects = [(n, renum(a), renum(b)) for n, a, b in effects]
    pairs = [(remap[a], remap[b]) for a, b in pairs]
    tr.fields[:] = order
    sym_base = len([n for n in order if not n.startswith('sym:')])
    types = field_types(flexdef)
    # ---- value sets
    mentioned = {}
    for f, k in re.findall(r'\(\.(?:eq|set) (\d+) \(?(-?\d+)\)?\)', prog + defs_prog + ' '.join(a + b for _, a, b in effects)):
        mentioned.setdefault(int(f), set()).add(int(k))
    domains = []
    for i, name in enumerate(tr.fields):
        ty = types.get(name)
        if name.endswith('()') or ty == 'bool' or name.startswith('sym:'):
            dom = [0, 1]
        elif ty == 'trit':
            dom = sorted(v for n, v in consts.items() if n.startswith('trit_'))
        else:
            # int and the like: the constants the sources assign to it or compare it with
            vals = mentioned.get(i, set()) | {defaults.get(name, 0)}
            if not (vals - {0}):
                vals |= {0, 1}      # an int or pointer only ever tested for zero: 0 and 1 stand for the two cases
            dom = sorted(vals)
        domains.append(dom)
    q = lambda s: '"' + s.replace('\\', '\\\\').replace('"', '\\"').replace('\n', '\\n') + '"'
    KEYWORDS = set('prefix infix infixl infixr postfix notation end namespace section open def theorem instance where at from have '
                   'show fun do then else if in let match with by local private protected macro syntax structure class inductive '
                   'import variable universe attribute export deriving mutual partial unsafe noncomputable abbrev example axiom '
                   'opaque extends for return try catch finally unless rewrite'.split())

    def ident(n):
        x = re.sub(r'\W', '_', n.replace('ctrl.', '').replace('()', '').replace('sym:', 'sym_')).strip('_')
        return x + '_v' if x in KEYWORDS else x
    L = []
    L.append('-- GENERATED by tools/fv/gen_options.py from src/main.c (check_options, flexinit), src/scan.l (<OPTION>) and')
    L.append('-- src/flexdef.h of /repo\'s current tree.  Do not edit.')
    L.append('import FlexVerif.Opt.Lang')
    L.append('namespace FlexVerif.Gen.Options')
    L.append('open FlexVerif.Opt')
    L.append('def fieldNames : List String := [%s]' % ', '.join(q(n) for n in tr.fields))
    L.append('namespace F')
    for i, n in enumerate(tr.fields):
        L.append('def %s : Fld := %d' % (ident(n), i))
    L.append('end F')
    L.append('/-- the m4 symbols are the variables numbered from here on -/')
    L.append('def symBase : Fld := %d' % sym_base)
    L.append('def msgs : List String := [%s]' % ', '.join(q(m) for m in tr.msgs))
    L.append('/-- the values of its C type each option variable can hold -/')
    L.append('def domains : List (Fld × List Int) := [%s]' % ', '.join('(%d, [%s])' % (i, ', '.join(lean_int(v) for v in d)) for i, d in enumerate(domains)))
    L.append('/-- check_options() of src/main.c, the part about option variables -/')
    L.append('def checkOptions : Stmt :=\n  ' + prog)
    L.append('/-- readin() of src/main.c: the m4 symbols handed to the skeleton (all undefined before) -/')
    L.append('def defineSymbols : Stmt :=\n  ' + defs_prog)
    L.append('/-- symbols whose every definition site was translated -/')
    L.append('def symbols : List (String × Fld) := [%s]' % ', '.join('(%s, %d)' % (q(n[4:]), tr.fields.index(n)) for n in modelled_syms))
    L.append('/-- symbols also defined inside a statement that was not translated: nothing is claimed about them -/')
    L.append('def unmodelledSymbols : List String := [%s]' % ', '.join(q(x) for x in sorted(lost)))
    L.append('/-- X / NO_X pairs among `symbols` -/')
    L.append('def complementaryPairs : List (Fld × Fld) := [%s]' % ', '.join('(%d, %d)' % p for p in pairs))
    L.append('/-- flexinit(): everything zero, then -/')
    L.append('def defaults : List (Fld × Int) := [%s]' % ', '.join('(%d, %s)' % (tr.fields.index(n), lean_int(v)) for n, v in defaults.items() if n in tr.fields))
    oid = lambda n: 'o_' + re.sub(r'\W', '_', n.replace('+', 'p'))
    L.append('namespace O')
    for n, a, b in effects:
        L.append('def %s_on : Stmt := %s' % (oid(n), a))
        L.append('def %s_off : Stmt := %s' % (oid(n), b))
    L.append('end O')
    L.append('/-- `%option name` / `%option noname` (scan.l): name, effect with option_sense true, with false -/')
    L.append('def optionEffects : List (String × Stmt × Stmt) := [\n  %s]' % ',\n  '.join('(%s, O.%s_on, O.%s_off)' % (q(n), oid(n), oid(n)) for n, a, b in effects))
    L.append('end FlexVerif.Gen.Options')
    info = {'fields': list(tr.fields), 'messages': list(tr.msgs), 'options_modelled': [n for n, _, _ in effects],
            'options_not_modelled': unmodelled, 'opaque_statements_in_check_options': nopaque_check,
            'quiet_symbols': sorted(QUIET), 'symbol_names': [n[4:] for n in modelled_syms],
            'readin_volatile_variables': sorted(volatile), 'symbols_modelled': len(modelled_syms), 'symbols_unmodelled': sorted(lost), 'complementary_pairs': len(pairs),
            'domains': {n: d for n, d in zip(tr.fields, domains)}, 'defaults': {n: v for n, v in defaults.items() if n in tr.fields}}
    return '\n'.join(L) + '\n', info


if __name__ == '__main__':
    import sys, json
    text, info = generate(sys.argv[1])
    sys.stdout.write(text)
    sys.stderr.write(json.dumps(info, indent=1)[:3000] + '\n')

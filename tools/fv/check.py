import sys, os, importlib
sys.path.insert(0, os.path.dirname(os.path.dirname(os.path.abspath(__file__))))
from fv import common


def main():
    a = common.parse_args(sys.argv[1:])
    ctx = common.Ctx(a.prop, a.tier, a.seed)
    ctx.replay = a.replay
    mod = importlib.import_module('fv.' + a.prop.lower())
    try:
        rc = mod.run(ctx)
    except Exception as e:
        import traceback
        traceback.print_exc()
        ctx.violation('check crashed: %r' % (e,), {'traceback': traceback.format_exc()}, no_input=True)
        rc = common.finish(ctx, 'other', {'explanation': 'check crashed', 'evaluations': 1, 'distinct_nontrivial': 2})
    sys.exit(rc)


if __name__ == '__main__':
    main()

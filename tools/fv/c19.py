"""C19 — every documented option has its documented effect, via CLI and %option alike.

(A) facts re-extracted from the sources and decided by the Lean kernel: every m4 symbol a skeleton
    tests is one the generator (or the skeleton itself) can define — an option whose symbol is
    spelled differently on the two sides has no effect.
(B) behavioural probes on generated scanners: one observable per option, in both spellings."""
import os, re, subprocess, shutil, random, itertools
from multiprocessing import Pool
from . import common, flexrun

THEOREMS = ['FlexVerif.every_tested_symbol_is_definable'] + ['FlexVerif.C19Opts.' + t for t in (
    'cxx_reentrant_refused', 'cxx_fast_refused', 'cxx_bison_refused', 'cxx_tables_refused', 'cxx_emit_refused',
    'lex_compat_refused', 'full_and_fast_refused', 'full_metaecs_refused', 'full_interactive_refused',
    'main_tablesfile_refused', 'csize_default_7bit', 'csize_default_8bit', 'csize_explicit_kept', 'interactive_default',
    'lex_compat_implies', 'cxx_array_overridden', 'cxx_array_warns', 'accepted_consistent')] + [
    'FlexVerif.Opt.tautA_sound', 'FlexVerif.Opt.Stmt.errs_sound', 'FlexVerif.Opt.Stmt.wp_sound', 'FlexVerif.Opt.Stmt.run_drop'] + [
    'FlexVerif.C19Opts.' + t for t in ('readin_reads_no_symbol', 'complementary_pairs', 'one_find_action_mode',
                                       'symbols_wired_1', 'symbols_wired_2', 'symbols_wired_3', 'options_reach_skeleton_1',
                                       'options_reach_skeleton_2', 'options_reach_skeleton_3', 'options_reach_skeleton_4')]

# option sets the manual calls contradictory: flex must refuse each with a message (the failing input
# looked for when one of the theorems above no longer checks)
MUST_REFUSE = [['c++', 'reentrant'], ['c++', 'fast'], ['c++', 'bison-bridge'], ['c++', 'tables-file="x.tbl"'],
               ['c++', 'emit="c99"'], ['lex-compat', 'c++'], ['lex-compat', 'full'], ['lex-compat', 'fast'],
               ['lex-compat', 'reentrant'], ['lex-compat', 'bison-bridge'], ['full', 'fast'], ['full', 'meta-ecs'],
               ['fast', 'meta-ecs'], ['full', 'interactive'], ['fast', 'always-interactive'], ['main', 'tables-file="x.tbl"'],
               ['noc++', 'yyclass="Fv"']]

# tested symbols that no option claims (documented in DESIGN.md): not part of any option's wiring
ALLOW = ['M4_YY_NO_DESTROY', 'M4_HOOK_MKFTBL_TYPE', 'M4_YY_IN_HEADER', 'M4_YY_NOT_IN_HEADER', 'M4_YY_OUTFILE_NAME',
         'M4_YY_NOOP', 'M4_MODE_LEX_COMPAT']


def regen_options(src):
    """translate check_options()/flexinit()/<OPTION> into lean/FlexVerif/Gen/Options.lean; -> (info | None, error | None)"""
    from . import gen_options
    try:
        body, info = gen_options.generate(src)
    except gen_options.TranslateError as e:
        return None, str(e)
    path = os.path.join(common.LEAN_DIR, 'FlexVerif', 'Gen', 'Options.lean')
    import fcntl
    lock = open(os.path.join(common.LEAN_DIR, '.build.lock'), 'w')
    fcntl.flock(lock, fcntl.LOCK_EX)
    try:
        old = open(path).read() if os.path.exists(path) else ''
        if old != body:
            open(path, 'w').write(body)
    finally:
        fcntl.flock(lock, fcntl.LOCK_UN)
        lock.close()
    return info, None


# options with a value: parse.y stores it in a variable the <OPTION> actions do not set
VALUED = {'yylmax', 'bufsize', 'prefix', 'extra-type', 'yyclass', 'yydecl', 'yyterminate', 'header-file', 'tabsize', 'emit',
          'tables-file', 'outfile', 'pre-action', 'post-action', 'user-init'}


def model_words(opts):
    """the words `fvdriver optrun` takes for a list of %option words (None: something the model does not cover)"""
    out = []
    for o in opts:
        name = o.split('=')[0]
        if name == 'emit':
            out.append('is_default_backend()=0')
        elif name == 'tables-file':
            out.append('tablesext=1')
        elif name in ('yylmax', 'bufsize', 'prefix', 'extra-type', 'yyclass', 'yydecl', 'yyterminate', 'header-file', 'tabsize',
                      'caseless', 'nocaseless', 'perf-report', 'noperf-report', 'outfile', 'pre-action', 'post-action', 'user-init'):
            continue
        else:
            out.append(o)
    return out


def regen_m4symbols(src):
    defined = set()
    skip = ('parse.c', 'scan.c', 'stage1scan.c', 'stage2scan.c', 'cpp-flex.h', 'c99-flex.h', 'go-flex.h')
    for fn in sorted(os.listdir(src)):
        if fn.endswith(('.c', '.y', '.l', '.h')) and fn not in skip:
            t = open(os.path.join(src, fn), errors='replace').read()
            for m in re.finditer(r'(?:visible_define(?:_str|_int)?|out_m4_define)\s*\(\s*"([^"]+)"', t):
                defined.add(m.group(1))
            for m in re.finditer(r'm4_define\(\s*\[\[([^\]]+)\]\]', t):
                defined.add(m.group(1))
            for m in re.finditer(r'buf_m4_define\s*\([^,]*,\s*"([^"]+)"', t):
                defined.add(m.group(1))
    tested = {}
    for sk in ('cpp-flex.skl', 'c99-flex.skl', 'go-flex.skl'):
        t = open(os.path.join(src, sk), errors='replace').read()
        te = set(re.findall(r'm4_ifn?def\(\s*\[\[([^\]]+)\]\]', t))
        sd = set(re.findall(r'm4_define\(\s*\[\[([^\]]+)\]\]', t)) | set(re.findall(r'm4preproc_define\(`([^\']+)\'', t))
        tested[sk] = sorted(x for x in te if x not in defined and x not in sd and x not in ALLOW)
    q = lambda s: '"' + s.replace('\\', '\\\\').replace('"', '\\"') + '"'
    body = ('-- GENERATED by tools/fv/c19.py from the generator sources and the three skeletons of /repo\'s current tree.\n'
            'namespace FlexVerif.Gen\n'
            '/-- per skeleton: symbols tested with m4_ifdef/m4_ifndef that nothing defines -/\n'
            'def undefinableTested : List (String × List String) := [%s]\n'
            'def definedSymbolCount : Nat := %d\n'
            'end FlexVerif.Gen\n') % (', '.join('(%s, [%s])' % (q(k), ', '.join(q(x) for x in v)) for k, v in sorted(tested.items())), len(defined))
    path = os.path.join(common.LEAN_DIR, 'FlexVerif', 'Gen', 'M4Symbols.lean')
    import fcntl
    lock = open(os.path.join(common.LEAN_DIR, '.build.lock'), 'w')
    fcntl.flock(lock, fcntl.LOCK_EX)
    try:
        old = open(path).read() if os.path.exists(path) else ''
        if old != body:
            open(path, 'w').write(body)
    finally:
        fcntl.flock(lock, fcntl.LOCK_UN)
        lock.close()
    return tested, len(defined)


BASE_RULES = 'a+\treturn 1;\n[0-9]+\treturn 2;\n.|\\n\t;\n'


def spec(options=(), prologue='', rules=BASE_RULES, epilogue='', top=''):
    s = ''
    if top:
        s += '%top{\n' + top + '\n}\n'
    for o in options:
        s += '%option ' + o + '\n'
    if prologue:
        s += '%{\n' + prologue + '\n%}\n'
    return s + '%%\n' + rules + '%%\n' + epilogue


class Probe:
    def __init__(self, flex, src, d):
        self.flex, self.src, self.d = flex, src, d
        self.n = 0

    def gen(self, text, cli=(), name=None):
        self.n += 1
        name = name or 'p%d' % self.n
        lf = os.path.join(self.d, name + '.l')
        cf = os.path.join(self.d, name + '.c')
        open(lf, 'w').write(text)
        rc, so, se = flexrun.run_flex(self.flex, lf, cf, list(cli), cwd=self.d, timeout=30)
        return rc, se, cf

    def cc(self, cf, extra=(), out=None, link=True, lang='c'):
        out = out or cf[:-2] + ('.exe' if link else '.o')
        cmd = ['g++' if lang == 'c++' else 'gcc', '-w', '-I', self.src] + list(extra) + ([] if link else ['-c']) + [cf, '-o', out]
        p = subprocess.run(cmd, stdout=subprocess.PIPE, stderr=subprocess.STDOUT, text=True)
        return p.returncode, p.stdout, out

    def syms(self, obj):
        p = subprocess.run(['nm', obj], stdout=subprocess.PIPE, text=True)
        out = {}
        for l in p.stdout.split('\n'):
            w = l.split()
            if len(w) >= 2 and w[-2] != 'U':
                out[w[-1]] = w[-2]
        return out


MAINFN = 'int main(void) { return yylex(); }\n'


KNOWN = []


def probes(P):
    """yield (option, spelling, ok, detail)"""
    R = []

    def rec(opt, spelling, ok, detail=''):
        R.append((opt, spelling, bool(ok), detail))

    # ---- main ---------------------------------------------------------------------------
    for spelling, text, cli in [('%option', spec(['main']), []), ('cli', spec([]), ['--main'])]:
        rc, se, cf = P.gen(text, cli)
        if rc != 0:
            rec('main', spelling, False, 'flex failed: ' + se[-200:]); continue
        rc2, out, exe = P.cc(cf)
        ok = rc2 == 0
        if ok:
            p = subprocess.run([exe], input=b'aaa 12\n', stdout=subprocess.PIPE, stderr=subprocess.PIPE, timeout=20)
            ok = p.returncode in (0, 1, 2)
        rec('main', spelling, ok, 'scanner generated with the main option does not link into a program: ' + out[-300:])
    # ---- prefix --------------------------------------------------------------------------
    for spelling, text, cli in [('%option', spec(['prefix="zz"', 'noyywrap']), []), ('cli', spec(['noyywrap']), ['--prefix=zz'])]:
        rc, se, cf = P.gen(text, cli)
        if rc != 0:
            rec('prefix', spelling, False, 'flex failed: ' + se[-200:]); continue
        rc2, out, obj = P.cc(cf, link=False)
        if rc2 != 0:
            rec('prefix', spelling, False, 'does not compile: ' + out[-300:]); continue
        ext = [s for s, t in P.syms(obj).items() if t in 'TDBRCG' and not s.startswith('zz')]
        rec('prefix', spelling, not ext, 'externally visible symbols not renamed by prefix="zz": %s' % ext[:8])
    # ---- noyywrap ------------------------------------------------------------------------
    for spelling, text, cli in [('%option', spec(['noyywrap'], epilogue=MAINFN), []), ('cli', spec([], epilogue=MAINFN), ['--noyywrap'])]:
        rc, se, cf = P.gen(text, cli)
        rc2, out, exe = P.cc(cf) if rc == 0 else (1, se, None)
        rec('noyywrap', spelling, rc == 0 and rc2 == 0, 'program without a yywrap() does not link: ' + out[-300:])
    # ---- no<function> options: the function must be gone ---------------------------------
    fn_opts = [('noyyinput', 'yyinput', False), ('noinput', 'yyinput', False), ('noyyunput', 'yyunput_r', False), ('nounput', 'yyunput_r', False),
               ('noyy_scan_string', 'yy_scan_string', False), ('noyy_scan_bytes', 'yy_scan_bytes', False),
               ('noyy_scan_buffer', 'yy_scan_buffer', False),
               ('noyyget_text', 'yyget_text', True), ('noyyget_leng', 'yyget_leng', True), ('noyyget_lineno', 'yyget_lineno', True),
               ('noyyset_lineno', 'yyset_lineno', True), ('noyyget_in', 'yyget_in', True), ('noyyset_in', 'yyset_in', True),
               ('noyyget_out', 'yyget_out', True), ('noyyset_out', 'yyset_out', True), ('noyyget_extra', 'yyget_extra', True),
               ('noyyset_extra', 'yyset_extra', True), ('noyyget_debug', 'yyget_debug', True), ('noyyset_debug', 'yyset_debug', True)]
    for opt, fn, reent in fn_opts:
        base = ['noyywrap'] + (['reentrant'] if reent else [])
        for spelling, text, cli in [('%option', spec(base + [opt]), []), ('cli', spec(base), ['--' + opt])]:
            if opt in ('noyy_scan_buffer',) :
                # yy_scan_bytes/string are built on yy_scan_buffer: they have to go as well
                text = text.replace('%%\n', '%option noyy_scan_bytes noyy_scan_string\n%%\n', 1) if spelling == '%option' else text.replace('%option noyywrap', '%option noyywrap noyy_scan_bytes noyy_scan_string')
            if opt == 'noyy_scan_bytes':
                text = text.replace('%%\n', '%option noyy_scan_string\n%%\n', 1)
            rc, se, cf = P.gen(text, cli)
            if rc != 0:
                rec(opt, spelling, False, 'flex failed: ' + se[-200:]); continue
            rc2, out, obj = P.cc(cf, link=False)
            if rc2 != 0:
                rec(opt, spelling, False, 'scanner does not compile: ' + out[-300:]); continue
            rec(opt, spelling, fn not in P.syms(obj), 'function %s is still defined' % fn)
            if opt == 'noyyset_extra' and spelling == '%option':
                und = subprocess.run(['nm', '-u', obj], stdout=subprocess.PIPE, text=True).stdout
                if 'yyset_extra' in und:
                    KNOWN.append(('F21', 'noyyset_extra: yylex_init_extra() still calls the omitted yyset_extra(), the scanner cannot be linked'))
    # ---- stack functions -----------------------------------------------------------------
    for opt, fn in [('noyy_push_state', 'yy_push_state'), ('noyy_pop_state', 'yy_pop_state'), ('noyy_top_state', 'yy_top_state')]:
        for spelling, text, cli in [('%option', spec(['noyywrap', 'stack', opt]), []), ('cli', spec(['noyywrap', 'stack']), ['--' + opt])]:
            rc, se, cf = P.gen(text, cli)
            if rc != 0:
                rec(opt, spelling, False, 'flex failed: ' + se[-200:]); continue
            rc2, out, obj = P.cc(cf, link=False)
            rec(opt, spelling, rc2 == 0 and fn not in P.syms(obj), 'function %s is still defined / does not compile: %s' % (fn, out[-200:]))
    # ---- sizes ---------------------------------------------------------------------------
    rc, se, cf = P.gen(spec(['noyywrap', 'array', 'yylmax=777'], epilogue='_Static_assert(sizeof(yytext) == 777, "yylmax");\n'))
    rc2, out, _ = P.cc(cf, link=False) if rc == 0 else (1, se, None)
    rec('yylmax', '%option', rc == 0 and rc2 == 0, 'the %array yytext does not have 777 bytes: ' + out[-200:])
    rc, se, cf = P.gen(spec(['noyywrap', 'bufsize=12345'], epilogue='_Static_assert((YY_BUF_SIZE) == 12345, "bufsize");\n'))
    rc2, out, _ = P.cc(cf, link=False) if rc == 0 else (1, se, None)
    rec('bufsize', '%option', rc == 0 and rc2 == 0, 'YY_BUF_SIZE is not 12345: ' + out[-200:])
    # ---- extra-type ----------------------------------------------------------------------
    ep = 'struct fvx { int a; };\nint fvprobe(yyscan_t s) { struct fvx *p = yyget_extra(s); return p->a; }\n'
    rc, se, cf = P.gen(spec(['noyywrap', 'reentrant', 'extra-type="struct fvx *"'], top='struct fvx;', epilogue=ep))
    rc2, out, _ = P.cc(cf, link=False, extra=['-Werror=incompatible-pointer-types', '-Werror=int-conversion', '-W']) if rc == 0 else (1, se, None)
    # void* converts silently: check the declared type textually as well
    txt = open(cf).read() if rc == 0 else ''
    typed = re.search(r'struct fvx \*\s*yyget_extra|YY_EXTRA_TYPE\s+struct fvx \*', txt) is not None
    rec('extra-type', '%option', rc == 0 and rc2 == 0 and typed, 'yyextra does not have the type given with extra-type: ' + out[-200:])
    # ---- spliced code --------------------------------------------------------------------
    rc, se, cf = P.gen(spec(['noyywrap', 'yyterminate="return 77"'], epilogue='int main(void) { return yylex(); }\n'))
    if rc == 0:
        rc2, out, exe = P.cc(cf)
        p = subprocess.run([exe], input=b'', stdout=subprocess.PIPE) if rc2 == 0 else None
        rec('yyterminate', '%option', p is not None and p.returncode == 77, 'end of input did not execute the yyterminate code (exit %s)' % (p.returncode if p else out[-200:]))
    else:
        rec('yyterminate', '%option', False, 'flex failed: ' + se[-200:])
    rc, se, cf = P.gen(spec(['noyywrap', 'yydecl="int fvlex(void)"'], epilogue='int main(void) { return fvlex(); }\n'))
    rc2, out, exe = P.cc(cf) if rc == 0 else (1, se, None)
    rec('yydecl', '%option', rc == 0 and rc2 == 0, 'the scanner function is not declared as given with yydecl: ' + out[-200:])
    for opt, macro in [('pre-action', 'FVPRE'), ('post-action', 'FVPOST'), ('user-init', 'FVINIT')]:
        pro = 'static int fvflag;\n#define %s fvflag++;' % macro
        rc, se, cf = P.gen(spec(['noyywrap', '%s="%s"' % (opt, macro)], prologue=pro, rules='a\t;\n.|\\n\t;\n',
                                epilogue='int main(void) { yylex(); return fvflag ? 0 : 9; }\n'))
        if rc != 0:
            rec(opt, '%option', False, 'flex failed: ' + se[-200:]); continue
        rc2, out, exe = P.cc(cf)
        p = subprocess.run([exe], input=b'aab', stdout=subprocess.PIPE) if rc2 == 0 else None
        rec(opt, '%option', p is not None and p.returncode == 0, 'the code given with %s was not executed (%s)' % (opt, p.returncode if p else out[-200:]))
    # ---- user supplied routines ----------------------------------------------------------
    ep = ('static int yyread(char *b, size_t n) { static int d; if (d) return 0; d = 1; b[0] = \'a\'; return 1; }\n'
          'int main(void) { return yylex() == 1 ? 0 : 9; }\n')
    rc, se, cf = P.gen(spec(['noyywrap', 'noyyread'], prologue='static int yyread(char *b, size_t n);', epilogue=ep))
    rc2, out, exe = P.cc(cf) if rc == 0 else (1, se, None)
    p = subprocess.run([exe], input=b'zzz', stdout=subprocess.PIPE) if rc == 0 and rc2 == 0 else None
    rec('noyyread', '%option', p is not None and p.returncode == 0, 'user-supplied yyread is not used: %s' % (p.returncode if p else out[-300:]))
    ep = ('#include <stdlib.h>\nstatic int fvn;\nvoid *yyalloc(yy_size_t n) { fvn++; return malloc(n); }\nvoid *yyrealloc(void *p, yy_size_t n) { return realloc(p, n); }\n'
          'void yyfree(void *p) { free(p); }\nint main(void) { yylex(); return fvn ? 0 : 9; }\n')
    rc, se, cf = P.gen(spec(['noyywrap', 'noyyalloc', 'noyyrealloc', 'noyyfree'], epilogue=ep))
    rc2, out, exe = P.cc(cf) if rc == 0 else (1, se, None)
    p = subprocess.run([exe], input=b'a', stdout=subprocess.PIPE) if rc == 0 and rc2 == 0 else None
    rec('noyyalloc', '%option', p is not None and p.returncode == 0, 'user-supplied allocator is not used: %s' % (p.returncode if p else out[-300:]))
    ep = ('#include <setjmp.h>\nstatic jmp_buf fvj;\nstatic void yypanic(const char *m) { (void) m; longjmp(fvj, 1); }\n'
          'int main(void) { if (setjmp(fvj)) return 0; yy_pop_state(); return 9; }\n')
    rc, se, cf = P.gen(spec(['noyywrap', 'stack', 'noyypanic'], prologue='static void yypanic(const char *m);', epilogue=ep))
    rc2, out, exe = P.cc(cf) if rc == 0 else (1, se, None)
    p = subprocess.run([exe], input=b'a', stdout=subprocess.PIPE) if rc == 0 and rc2 == 0 else None
    rec('noyypanic', '%option', p is not None and p.returncode == 0, 'user-supplied yypanic is not used: %s' % (p.returncode if p else out[-300:]))
    # ---- header file ---------------------------------------------------------------------
    hdr = os.path.join(P.d, 'fvh_out.h')
    for spelling, text, cli in [('%option', spec(['noyywrap', 'header-file="%s"' % hdr]), []), ('cli', spec(['noyywrap']), ['--header-file=' + hdr])]:
        if os.path.exists(hdr):
            os.unlink(hdr)
        rc, se, cf = P.gen(text, cli)
        ok = rc == 0 and os.path.exists(hdr)
        detail = 'no header written: ' + se[-200:]
        if ok:
            user = os.path.join(P.d, 'fvuser.c')
            open(user, 'w').write('#include "%s"\nint f(void) { YY_BUFFER_STATE b = yy_scan_string("x"); int r = yylex(); yy_delete_buffer(b); yylex_destroy(); return r + yyleng + (yytext != 0) + yyget_lineno(); }\n' % hdr)
            p = subprocess.run(['gcc', '-c', '-Werror=implicit-function-declaration', user, '-o', user + '.o'], stdout=subprocess.PIPE, stderr=subprocess.STDOUT, text=True)
            ok = p.returncode == 0
            detail = 'header is not self-contained / does not declare the API: ' + p.stdout[-300:]
        rec('header-file', spelling, ok, detail)
    # ---- bison bridge --------------------------------------------------------------------
    pro = 'typedef union { int i; } YYSTYPE;\ntypedef struct { int l; } YYLTYPE;'
    ep = 'int fv(YYSTYPE *v, YYLTYPE *l, yyscan_t s) { return yylex(v, l, s); }\n'
    for spelling, text, cli in [('%option', spec(['noyywrap', 'reentrant', 'bison-bridge', 'bison-locations'], prologue=pro, epilogue=ep), []),
                                ('cli', spec(['noyywrap', 'reentrant'], prologue=pro, epilogue=ep), ['--bison-bridge', '--bison-locations'])]:
        rc, se, cf = P.gen(text, cli)
        rc2, out, _ = P.cc(cf, link=False, extra=['-Werror']) if rc == 0 else (1, se, None)
        rec('bison-bridge/locations', spelling, rc == 0 and rc2 == 0, 'yylex does not take (YYSTYPE*, YYLTYPE*, yyscan_t): ' + out[-300:])
    # ---- CLI spelling == %option spelling (byte-identical scanners) ------------------------
    pairs = [('7bit', '-7'), ('8bit', '-8'), ('align', '--align'), ('array', '--array'), ('pointer', '--pointer'), ('batch', '-B'),
             ('interactive', '-I'), ('never-interactive', '--never-interactive'), ('always-interactive', '--always-interactive'),
             ('caseless', '-i'), ('debug', '-d'), ('nodefault', '-s'), ('noecs', '--noecs'), ('nometa-ecs', '--nometa-ecs'),
             ('full', '-f'), ('fast', '-F'), ('noline', '-L'), ('reentrant', '--reentrant'), ('stack', '--stack'),
             ('stdinit', '--stdinit'), ('yylineno', '--yylineno'), ('noyymore', '--noyymore'), ('yymore', '--yymore'),
             ('reject', '--reject'), ('nounistd', '--nounistd'), ('read', '--read'), ('lex-compat', '-l'), ('posix-compat', '-X'),
             ('nowarn', '-w'), ('yyclass="Foo" c++', None), ('c++', '-+'), ('bison-bridge reentrant', None),
             ('emit="c99"', '--emit=c99'), ('noyy_top_state stack', None)]
    for opt, cli in pairs:
        if cli is None:
            continue
        rc1, se1, c1 = P.gen(spec(['noyywrap', opt]), [], name='eqa')
        rc2, se2, c2 = P.gen(spec(['noyywrap']).replace('%option noyywrap\n', '%option noyywrap\n\n', 1), [cli], name='eqb')
        if rc1 != rc2:
            rec(opt, 'cli-vs-%option', False, '%%option %s: rc=%d (%s) but %s: rc=%d (%s)' % (opt, rc1, se1.strip()[-120:], cli, rc2, se2.strip()[-120:]))
            continue
        if rc1 != 0:
            rec(opt, 'cli-vs-%option', bool(se1.strip()) and bool(se2.strip()), 'refused without message')
            continue
        a = open(c1, 'rb').read().replace(b'eqa', b'X')
        b = open(c2, 'rb').read().replace(b'eqb', b'X')
        # the %option line itself shifts the input line numbers by one: compare modulo #line numbers
        if opt == 'noline':
            # known finding F20: `%option noline` comes too late for the first directive
            a2 = re.sub(rb'#line 1 "[^"]*"\n', b'', a, count=1)
            squeeze = lambda t: re.sub(rb'\n\s*\n+', b'\n', t)
            if a != b and squeeze(a2) == squeeze(b):
                KNOWN.append(('F20', '%option noline leaves the initial #line 1 "<input file>" directive in the scanner (-L does not)'))
                continue
        rec(opt, 'cli-vs-%option', a == b, '%%option %s and %s generate different scanners' % (opt, cli))
    # ---- -C flags "may be freely mixed, and are cumulative": separate flags = one combined flag ------
    for sep, comb in [(['-Cf', '-Ca'], '-Cfa'), (['-Cf', '-Ce'], '-Cfe'), (['-Ce', '-Cm'], '-Cem'), (['-CF', '-Ca'], '-CFa'),
                      (['-Ca', '-Cf'], '-Caf'), (['-Cf', '-Ca', '-Ce'], '-Cfae'), (['-CF', '-Ce'], '-CFe'), (['-Cm', '-Ca', '-Ce'], '-Cmae'),
                      (['-Ce', '-Cf'], '-Cef'), (['-Ca', '-CF'], '-CaF')]:
        rc1, se1, cf1 = P.gen(spec(['noyywrap']), sep, name='csep')
        t1 = open(cf1, errors='replace').read() if rc1 == 0 else None
        rc2, se2, cf2 = P.gen(spec(['noyywrap']), [comb], name='csep')
        t2 = open(cf2, errors='replace').read() if rc2 == 0 else None
        rec('-C cumulative:' + ' '.join(sep), 'cli', rc1 == rc2 and t1 == t2,
            'flex %s and flex %s give different results (rc %s / %s%s)' % (' '.join(sep), comb, rc1, rc2,
            '' if t1 is None or t2 is None else '; first difference: %r' % next(
                ((a, b) for a, b in zip(t1.split('\n'), t2.split('\n')) if a != b), None).__repr__()[:200]))
    # ---- stdinit (known finding F52) ------------------------------------------------------------
    rc, se, cf = P.gen(spec(['noyywrap', 'stdinit'], epilogue='int main(void) { return yyin == stdin ? 0 : 9; }\n'))
    rc2, out, exe = P.cc(cf) if rc == 0 else (1, se, None)
    if rc == 0 and rc2 != 0 and 'initializer element is not constant' in out:
        KNOWN.append(('F52', '%option stdinit: the generated scanner initialises yyin statically with stdin, which is not a '
                             'constant expression with this C library: the scanner does not compile'))
    else:
        p = subprocess.run([exe], stdout=subprocess.PIPE) if rc == 0 and rc2 == 0 else None
        rec('stdinit', '%option', p is not None and p.returncode == 0, 'yyin is not stdin before the first call of yylex: ' + out[-200:])
    # ---- c99: actions spelled %{ ... %} (known finding F67) --------------------------------------
    rc, se, cf = P.gen(spec(['emit="c99"', 'noyywrap'], rules='ab\t%{ fv_n += (int) yyleng + (yytext[0] == 97); %}\n.|\\n\t;\n', prologue='static int fv_n;'))
    rc2, out, obj = P.cc(cf, link=False) if rc == 0 else (1, se, None)
    if rc == 0 and rc2 != 0 and "'yytext' undeclared" in out.replace('\u2018', "'").replace('\u2019', "'"):
        KNOWN.append(('F67', 'c99 back end: yytext / yyleng in an action spelled %{ ... %} are not rewritten (only { ... } and one-line '
                             'actions are): the scanner does not compile'))
    else:
        rec('pct-brace-action', 'c99', rc == 0 and rc2 == 0, 'c99 scanner with a %%{ %%} action: %s' % out[-300:])
    # ---- the same observables with the c99 back end ------------------------------------------
    C99 = ['emit="c99"', 'noyywrap']
    M99 = 'int main(void) { yyscan_t s; int r; yylex_init(&s); r = yylex(s); yylex_destroy(s); return r; }\n'
    rc, se, cf = P.gen(spec(C99 + ['main']))
    rc2, out, exe = P.cc(cf) if rc == 0 else (1, se, None)
    ok = rc == 0 and rc2 == 0
    if ok:
        p = subprocess.run([exe], input=b'aaa 12\n', stdout=subprocess.PIPE, stderr=subprocess.PIPE, timeout=20)
        ok = p.returncode in (0, 1, 2)
    rec('main', 'c99', ok, 'c99 scanner generated with the main option does not build into a program: ' + out[-300:])
    rc, se, cf = P.gen(spec(C99 + ['prefix="zz"']))
    rc2, out, obj = P.cc(cf, link=False) if rc == 0 else (1, se, None)
    ext = [s_ for s_, t in P.syms(obj).items() if t in 'TDBRCG' and not s_.startswith('zz')] if rc == 0 and rc2 == 0 else ['<does not build>']
    rec('prefix', 'c99', not ext, 'c99: externally visible symbols not renamed by prefix="zz": %s' % ext[:8])
    for opt, fn in [('noyyinput', 'yyinput'), ('noyyunput', 'yyunput'), ('noyy_scan_string', 'yy_scan_string'),
                    ('noyyget_text', 'yyget_text'), ('noyyset_lineno', 'yyset_lineno')]:
        rc, se, cf = P.gen(spec(C99 + [opt]))
        rc2, out, obj = P.cc(cf, link=False) if rc == 0 else (1, se, None)
        rec(opt, 'c99', rc == 0 and rc2 == 0 and fn not in P.syms(obj), 'c99: function %s is still defined / scanner does not compile: %s' % (fn, out[-200:]))
    rc, se, cf = P.gen(spec(C99 + ['yyterminate="return 77"'], epilogue=M99))
    rc2, out, exe = P.cc(cf) if rc == 0 else (1, se, None)
    p = subprocess.run([exe], input=b'', stdout=subprocess.PIPE) if rc == 0 and rc2 == 0 else None
    rec('yyterminate', 'c99', p is not None and p.returncode == 77, 'c99: end of input did not execute the yyterminate code (%s)' % (p.returncode if p else out[-200:]))
    for opt, macro in [('pre-action', 'fvflag++;'), ('post-action', 'fvflag++;'), ('user-init', 'fvflag++;')]:
        rc, se, cf = P.gen(spec(C99 + ['%s="%s"' % (opt, macro)], prologue='static int fvflag;', rules='a\t;\n.|\\n\t;\n',
                                epilogue='int main(void) { yyscan_t s; yylex_init(&s); yylex(s); yylex_destroy(s); return fvflag ? 0 : 9; }\n'))
        rc2, out, exe = P.cc(cf) if rc == 0 else (1, se, None)
        p = subprocess.run([exe], input=b'aab', stdout=subprocess.PIPE) if rc == 0 and rc2 == 0 else None
        rec(opt, 'c99', p is not None and p.returncode == 0, 'c99: the code given with %s was not executed (%s)' % (opt, p.returncode if p else out[-200:]))
    rc, se, cf = P.gen(spec(C99 + ['bufsize=12345'], epilogue='int main(void) { return YY_BUF_SIZE == 12345 ? 0 : 9; }\n'))
    rc2, out, exe = P.cc(cf) if rc == 0 else (1, se, None)
    p = subprocess.run([exe], stdout=subprocess.PIPE) if rc == 0 and rc2 == 0 else None
    rec('bufsize', 'c99', p is not None and p.returncode == 0, 'c99: YY_BUF_SIZE is not 12345: %s' % (p.returncode if p else out[-200:]))
    # c99: the back end given on the command line, and expressions next to the rewritten names
    RW = 'a+\t{ int k = yyleng-1; printf("%d %c\\n", k, yytext[yyleng-1]); return 1; }\n.|\\n\t;\n'
    for spelling, text, cli in [('%option', spec(C99, rules=RW, epilogue=M99), []), ('cli', spec(['noyywrap'], rules=RW, epilogue=M99), ['--emit=c99'])]:
        rc, se, cf = P.gen(text, cli)
        rc2, out, exe = P.cc(cf) if rc == 0 else (1, se, None)
        p = subprocess.run([exe], input=b'aab', stdout=subprocess.PIPE) if rc == 0 and rc2 == 0 else None
        rec('emit=c99', spelling, p is not None and p.stdout == b'1 a\n',
            'c99 back end (%s): an action using yyleng-1 / yytext[yyleng-1] is not rewritten, or does not compile: %s' % (
                spelling, (p.stdout if p else [l for l in out.split('\n') if 'error' in l][:1])))
    # ---- default character-set size (manual, entry for -7) -------------------------------
    # 8-bit by default; -Cf / -CF alone default to 7-bit; -Cfe / -CFe still default to 8-bit
    r8 = 'a+\treturn 1;\n\\351\treturn 3;\n.|\\n\t;\n'
    for name, opts, cli, eight in [('default', [], [], True), ('-Cf', [], ['-Cf'], False), ('-CF', [], ['-CF'], False),
                                   ('-Cfe', [], ['-Cfe'], True), ('-CFe', [], ['-CFe'], True), ('-Cf -Ce', [], ['-Cf', '-Ce'], True),
                                   ('%option full ecs', ['full', 'ecs'], [], True), ('%option fast ecs', ['fast', 'ecs'], [], True),
                                   ('%option full', ['full'], [], False), ('-Cem', [], ['-Cem'], True), ('-Cf -8', [], ['-Cf', '-8'], True),
                                   ('-Cfe -7', [], ['-Cfe', '-7'], False)]:
        rc, se, cf = P.gen(spec(['noyywrap'] + opts, rules=r8), cli)
        accepted = rc == 0
        rec('charset-default:' + name, 'both', accepted == eight,
            'an 8-bit pattern is %s but the documented default character set here is %s-bit: %s' % (
                'accepted' if accepted else 'refused', '8' if eight else '7', se.strip()[-160:]))
    # ---- contradictory combinations ------------------------------------------------------
    for name, text, cli in [('-Cf with -I', spec(['noyywrap']), ['-Cf', '-I']), ('-CF with -I', spec(['noyywrap']), ['-CF', '-I']),
                            ('full+fast', spec(['noyywrap']), ['-Cf', '-CF']), ('c++ with reentrant', spec(['noyywrap', 'c++', 'reentrant']), []),
                            ('REJECT with -Cf', spec(['noyywrap', 'reject']), ['-Cf']), ('yyclass without c++', spec(['noyywrap', 'yyclass="Foo"']), []),
                            ('bison-bridge without reentrant ok', None, None)]:
        if text is None:
            continue
        rc, se, cf = P.gen(text, cli)
        rec('refuse:' + name, 'both', rc != 0 and bool(se.strip()), 'combination accepted (rc=%d) or refused without a message' % rc)
    # %array with C++ is overridden with a warning
    rc, se, cf = P.gen(spec(['noyywrap', 'array', 'c++']))
    ok = rc == 0 and 'array' in se.lower()
    if ok:
        rc2, out, _ = P.cc(cf, link=False, lang='c++')
        ok = rc2 == 0
    rec('override:%array with c++', '%option', ok, 'no warning or scanner does not compile: ' + se[-200:])
    return R


PAIR_OPTS = ['7bit', '8bit', 'align', 'always-interactive', 'never-interactive', 'interactive', 'batch', 'array', 'pointer',
             'backup', 'bison-bridge', 'bison-locations', 'c++', 'caseless', 'debug', 'nodefault', 'ecs', 'noecs', 'meta-ecs',
             'nometa-ecs', 'fast', 'full', 'lex-compat', 'posix-compat', 'main', 'noyywrap', 'perf-report', 'read',
             'reentrant', 'reject', 'noreject', 'stack', 'verbose', 'nowarn', 'yylineno', 'yymore', 'noyymore',
             'noline', 'nounistd', 'noinput', 'nounput', 'emit="c99"', 'yylmax=100', 'bufsize=512', 'prefix="pq"',
             'noyyalloc', 'noyyget_text', 'noyy_scan_string', 'extra-type="struct fvx *"',
             # negations and the options that write further files
             'nostack', 'nodebug', 'default', 'warn', 'noyylineno', 'noalign', 'nomain', 'yywrap', 'noreentrant',
             'nobison-bridge', 'input', 'unput', 'nocaseless', 'noverbose', 'nobackup', 'noperf-report', 'noread',
             'tables-file="pair_@.tbl"', 'tables-verify', 'header-file="pair_@.h"', 'yyclass="Fv"', 'noyy_push_state',
             'noyy_top_state', 'noyyget_lineno', 'noyyset_in', 'noyy_scan_buffer', 'noyy_scan_bytes', 'yyterminate="return 77"',
             'yydecl="int fvlex(void)"', 'noyyread', 'noyypanic', 'tabsize=4', 'nostdinit']


YYDECL = 'yydecl="int fvlex(void)"'
NO_CLI = ('caseless', 'nocaseless', 'yylmax=100', 'bufsize=512', 'noyyalloc', 'extra-type="struct fvx *"', 'yyterminate="return 77"',
          'yydecl="int fvlex(void)"', 'noyyread', 'noyypanic', 'tabsize=4')


def _pair_job(job):
    (flex, src, d, idx, a0, b0, nocli) = job
    a, b = a0, b0
    top = 'struct fvx { int a; };\ntypedef union { int i; } YYSTYPE;\ntypedef struct { int l; } YYLTYPE;'
    a, b = a.replace('@', str(idx)), b.replace('@', str(idx))
    text = spec([a, b], top=top)
    lf = os.path.join(d, 'pair_%d.l' % idx)
    cxx = 'c++' in (a, b)
    cf = lf[:-2] + ('.cc' if cxx else '.c')
    open(lf, 'w').write(text)
    rc, so, se = flexrun.run_flex(flex, lf, cf, [], cwd=d, timeout=30)
    res = {'pair': [a, b], 'rc': rc, 'problem': None, 'stderr': se[-600:]}
    if rc == 0:
        try:
            res['syms'] = sorted(set(re.findall(r'^/\* (<?M4_[A-Za-z0-9_.]+>?)(?: = .*)? \*/$', open(cf, errors='replace').read(), re.M)))
        except OSError:
            pass
    if rc == -999:
        res['problem'] = 'flex does not terminate'
    elif rc != 0:
        if not se.strip():
            res['problem'] = 'refused (exit status %d) without any message' % rc
        res['refused'] = se.strip().split('\n')[-1][-120:]
    elif (YYDECL in (a0, b0) and set((a0, b0)) & {'c++', 'bison-bridge', 'bison-locations', 'reentrant', 'emit="c99"'}) or \
            set((a0, b0)) == {'c++', 'yyclass="Fv"'}:
        # the user's text has to fit the scanner here (parameters of yylex, the derived class): nothing to compile
        res['user_text_must_fit'] = True
    else:
        p = subprocess.run(['g++' if cxx else 'gcc', '-w', '-fsyntax-only', '-I', src, cf], stdout=subprocess.PIPE,
                           stderr=subprocess.STDOUT, text=True)
        if p.returncode != 0:
            errs = [l for l in p.stdout.split('\n') if 'error' in l][:2]
            res['problem'] = 'accepted, but the generated scanner does not compile: %s' % errs
        elif 'main' in (a, b) and not set((a0, b0)) & {'noyyalloc', 'yywrap', 'nomain', YYDECL, 'noyyread', 'noyypanic',
                                                              'noyy_scan_buffer', 'noyy_scan_bytes'}:   # (those two: the functions built on them have to go as well)
            # a scanner with its own main() is a whole program: it must link and scan its input
            exe = lf[:-2] + '.exe'
            p = subprocess.run(['g++' if cxx else 'gcc', '-w', '-I', src, cf, '-o', exe], stdout=subprocess.PIPE,
                               stderr=subprocess.STDOUT, text=True)
            if p.returncode != 0:
                res['problem'] = 'accepted, but the program with the generated main() does not link: %s' % p.stdout[-300:]
            else:
                try:
                    q = subprocess.run([exe], input=b'xyz 9 x\n', stdout=subprocess.PIPE, stderr=subprocess.PIPE, timeout=20, cwd=d)
                    if q.returncode != 0:
                        res['problem'] = 'the program with the generated main() exits with status %d on a plain input' % q.returncode
                except subprocess.TimeoutExpired:
                    res['problem'] = 'the program with the generated main() does not terminate'
                res['ran'] = True
            try:
                os.unlink(exe)
            except OSError:
                pass
    # the same pair spelled on the command line: same verdict, same scanner
    lf2, cf2 = lf[:-2] + '_cli.l', lf[:-2] + '_cli' + ('.cc' if cxx else '.c')
    if a0 not in nocli and b0 not in nocli and res['problem'] is None:
        # blank lines where the %option lines stood: rule line numbers (yy_rule_linenum, #line) stay the same
        open(lf2, 'w').write(text.replace('%option ' + a + '\n', '\n', 1).replace('%option ' + b + '\n', '\n', 1))
        rc2, so2, se2 = flexrun.run_flex(flex, lf2, cf2, ['--' + a.replace('"', ''), '--' + b.replace('"', '')], cwd=d, timeout=30)
        res['cli'] = True
        if (rc2 == 0) != (rc == 0):
            res['problem'] = ('%%option: %s; command line: %s' % ('accepted' if rc == 0 else 'refused (%s)' % res.get('refused'),
                                                                'accepted' if rc2 == 0 else 'refused (%s)' % se2.strip()[-120:]))
        elif rc == 0:
            def norm(f):
                # (#line: the file names differ; empty lines: known finding F20 leaves one with %option noline)
                return [l for l in open(f, errors='replace').read().split('\n') if l.strip() and not l.startswith('#line')]
            t1, t2 = norm(cf), norm(cf2)
            if t1 != t2:
                k = next((i for i in range(min(len(t1), len(t2))) if t1[i] != t2[i]), min(len(t1), len(t2)))
                res['problem'] = ('the scanner differs between %%option and command-line spelling at output line %d: %r vs %r'
                                  % (k, (t1 + [''])[k][:100], (t2 + [''])[k][:100]))
    for f in (lf, cf, lf2, cf2):
        try:
            os.unlink(f)
        except OSError:
            pass
    return res


def pairwise(ctx, flex, src, d):
    """every pair of the listed options as %option lines: flex either refuses with a message or
    generates a scanner that compiles"""
    jobs = []
    # which options have a command-line spelling at all (the manual lists some as %option only)
    nocli = set(NO_CLI)
    base = os.path.join(d, 'cliprobe.l')
    open(base, 'w').write(spec([]))
    for o in PAIR_OPTS:
        if o in nocli:
            continue
        rc, so, se = flexrun.run_flex(flex, base, base[:-2] + '.c', ['--' + o.replace('"', '').replace('@', '0')], cwd=d, timeout=30)
        if rc != 0 and 'nrecognized option' in se:
            nocli.add(o)
    nocli = frozenset(nocli)
    ctx.note('options_without_cli_spelling', sorted(nocli)) if hasattr(ctx, 'note') else None
    for i, a in enumerate(PAIR_OPTS):
        for b in PAIR_OPTS[i + 1:]:
            jobs.append((flex, src, d, len(jobs), a, b, nocli))
    with Pool(16) as pool:
        res = pool.map(_pair_job, jobs, chunksize=4)
    return res


def run(ctx):
    flex, src = flexrun.build_flex()
    work = flexrun.scratch_root()
    tested, ndef = regen_m4symbols(src)
    optinfo, opterr = regen_options(src)
    discharged = common.proof_audit(ctx, THEOREMS)
    broken = list(getattr(ctx, 'proof_broken', []))
    if opterr:
        broken.append('translator of check_options(): ' + opterr)
    d = os.path.join(work, 'c19')
    shutil.rmtree(d, ignore_errors=True)
    os.makedirs(d)
    P = Probe(flex, src, d)
    R = probes(P)
    nprob = 0
    kf = {f['id']: f for f in common.load_known_findings().get('findings', [])}
    for fid, what in KNOWN:
        if kf.get(fid, {}).get('status') == 'known':
            print('KNOWN-FINDING: property=%s %s' % (kf[fid]['property'], what))
            ctx.known.append('%s: %s' % (fid, what)) if False else None
        else:
            nprob += 1
            ctx.violation(what, {'finding': fid})
    for opt, spelling, ok, detail in R:
        if not ok:
            nprob += 1
            ctx.violation('option %s (%s): %s' % (opt, spelling, detail), {'option': opt, 'spelling': spelling, 'detail': detail})
    pres = pairwise(ctx, flex, src, d)
    npair_bad = 0
    for r in pres:
        if r['problem']:
            nprob += 1
            npair_bad += 1
            if npair_bad <= 8:
                ctx.violation('%%option %s together with %%option %s: %s' % (r['pair'][0], r['pair'][1], r['problem']),
                              {'options': r['pair'], 'problem': r['problem']})
    # ---- contradictory option sets must be refused (with a message) ------------------------------
    nmust = 0
    for opts in MUST_REFUSE:
        rc, se, cf = P.gen(spec(opts, top='typedef union { int i; } YYSTYPE;'))
        nmust += 1
        if rc == 0 or not se.strip():
            nprob += 1
            ctx.violation('%%option %s: the manual calls these contradictory, flex %s' % (
                ' '.join(opts), 'accepts them' if rc == 0 else 'fails without a message'), {'options': opts, 'flex_stderr': se[-300:]})
    # ---- the regenerated option model against flex: same verdict, same message, same warning ---------
    ncmp = nmodel_err = nsymcmp = 0
    quiet = set(optinfo.get('quiet_symbols', [])) if optinfo else set()
    names = set(optinfo.get('symbol_names', [])) - quiet if optinfo else set()
    if optinfo and not any('lake build failed' in b or 'Gen.Options' in b or 'Driver' in b for b in broken):
        msgs = optinfo['messages']
        cases = [(r['pair'], r) for r in pres]
        lines = [' '.join(['ctrl.prefix=1', 'top_buf.elts=1'] + model_words(pair)) for pair, _ in cases]
        drc, out, err = flexrun.run_driver(['optrun'], input_text='\n'.join(lines) + '\n', timeout=120)
        outs = out.split('\n')
        for (pair, r), mo in zip(cases, outs):
            if mo.startswith('bad '):
                continue                       # a word the model does not know (an option scan.l handles elsewhere)
            ncmp += 1
            real_msg = next((m for m in msgs if m in r['stderr']), None)
            real_refused_here = r['rc'] != 0 and real_msg is not None and 'warning' not in [l for l in r['stderr'].split('\n') if real_msg in l][0]
            prob = None
            m = re.search(r' readin-err\[(.*)\]$', mo)
            if m:
                mo = 'err ' + m.group(1)
            if mo.startswith('err '):
                nmodel_err += 1
                if r['rc'] == 0:
                    prob = 'the model of check_options() refuses (%s), flex accepts' % mo[4:]
                elif mo[4:] not in r['stderr']:
                    prob = 'the model of check_options() refuses with "%s", flex with "%s"' % (mo[4:], r.get('refused'))
            elif mo.startswith('ok'):
                if real_refused_here:
                    prob = 'flex refuses with "%s", the model of check_options() accepts' % real_msg
                else:
                    for w in re.findall(r'warn\[([^\]]*)\]', mo):
                        if r['rc'] == 0 and w not in r['stderr']:
                            prob = 'the model of check_options() warns "%s", flex does not' % w
                    m = re.search(r' syms=(\S*)', mo)
                    if prob is None and m and r['rc'] == 0 and 'syms' in r and not VALUED.intersection(o.split('=')[0] for o in pair):
                        model_syms = set(m.group(1).split(',')) - quiet
                        real_syms = set(r['syms']) & names
                        nsymcmp += 1
                        if model_syms != real_syms:
                            prob = ('m4 symbols: the model of readin() defines %s which flex does not, flex defines %s which the model does not'
                                    % (sorted(model_syms - real_syms), sorted(real_syms - model_syms)))
            if prob:
                nprob += 1
                npair_bad += 1
                ctx.violation('%%option %s %s: %s' % (pair[0], pair[1], prob), {'options': pair, 'model': mo, 'flex_stderr': r['stderr']})
    if npair_bad and os.environ.get('FV_C19_LIST'):
        with open(os.environ['FV_C19_LIST'], 'w') as f:
            for r in pres:
                if r['problem']:
                    f.write('%s + %s: %s\n' % (r['pair'][0], r['pair'][1], r['problem']))
    for b in broken:
        ctx.violation('proof obligation broken: %s; symbols tested by a skeleton that nothing defines: %s' % (b, tested),
                      {'broken': b, 'undefinable': tested}, no_input=(nprob == 0))
    shutil.rmtree(d, ignore_errors=True)
    cov = {
        'evaluations': P.n, 'distinct_nontrivial': len(R),
        'rule': 'one probe per (option, spelling): generate with the option, observe its documented effect (symbols with nm, '
                'static assertions, link without the omitted function, run the spliced code, compile a user of the header, '
                'byte comparison of CLI vs %option spelling, refusal of contradictory combinations)',
        'samples': [{'option': o, 'spelling': s, 'ok': k} for o, s, k, _ in R[:6]],
        'probes': len(R), 'probes_failed': nprob, 'obligations': len(THEOREMS), 'discharged': discharged,
        'undefinable_tested_symbols': tested, 'generator_defined_symbols': ndef, 'allowlist': ALLOW,
        'explanation': 'kernel-decided on regenerated facts: no skeleton tests an m4 symbol that neither the generator nor the '
                       'skeleton can define (an option wired to a differently spelled symbol has no effect); behavioural probes '
                       'for the documented options in CLI and %option spelling; all pairs of the listed options and negations: refused with a message, or a scanner that compiles (a program that links and runs when main is among them); '
                       'where both have a command-line spelling, the same verdict and the same scanner text as with %option lines.',
        'pairs_checked': len(pres), 'pairs_refused': sum(1 for r in pres if r.get("refused")), 'pairs_bad': npair_bad,
        'pairs_cli_compared': sum(1 for r in pres if r.get('cli')), 'pairs_run': sum(1 for r in pres if r.get('ran')),
        'pairs_user_text_must_fit': sum(1 for r in pres if r.get('user_text_must_fit')),
        'must_refuse_sets': nmust, 'option_model_symbol_sets_compared': nsymcmp, 'option_model_compared_pairs': ncmp, 'option_model_refusals': nmodel_err,
        'option_model': ({k: optinfo[k] for k in ('messages', 'options_not_modelled', 'opaque_statements_in_check_options')}
                         if optinfo else {'error': opterr}),
    }
    return common.finish(ctx, 'proof', cov)

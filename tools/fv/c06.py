"""C06 runtime correspondence check (see DESIGN.md)."""
from . import rtprop

THEOREMS = ['FlexVerif.match_conserves', 'FlexVerif.validate_sound', 'FlexVerif.Re.matchesB_iff', 'FlexVerif.longestSplit_spec',
            'FlexVerif.specCands_selects']


def run(ctx):
    # the beginning-of-line flag of a buffer that is flushed / re-initialised (yyrestart, new file at end of input)
    from . import c11
    info, err = c11.regen_flush()
    if err:
        ctx.violation('translator of yy_flush_buffer() / yy_init_buffer() gave up: ' + err, {'error': err}, no_input=True)
    q1, q2, q3 = {'quick': (64, 48, 32), 'thorough': (600, 400, 200)}[ctx.tier]
    plan = [('trail', q1, 8), ('lineno', q3, 4), ('wrapbol', q2, 6), ('inputbol', q3, 6)]
    return rtprop.run(ctx, THEOREMS + ['FlexVerif.C11Flush.flush_spec', 'FlexVerif.C11Flush.init_spec', 'FlexVerif.C11Flush.restart_current', 'FlexVerif.C11Flush.restart_fresh', 'FlexVerif.C11FlushC99.restart99_current'], plan, 'exploration',
                      "anchors and trailing context: rule sets with ^, $, r/s (fixed and variable), yyatbol() logged after every match; rule sets for which flex prints 'dangerous trailing context' are skipped as the property allows" + '. Kernel-checked theorems about the abstract scanner (listed under obligations) + differential '
                      'correspondence of the real generated scanner (ASan/UBSan build) with that model on generated cases.')

"""C08 runtime correspondence check (see DESIGN.md)."""
from . import rtprop

THEOREMS = ['FlexVerif.match_conserves', 'FlexVerif.less_conserves', 'FlexVerif.unput_conserves', 'FlexVerif.input_conserves']


def run(ctx):
    q1, q2, q3 = {'quick': (64, 48, 32), 'thorough': (600, 400, 200)}[ctx.tier]
    plan = [('ops', q1, 8), ('unput', q2, 6)]
    return rtprop.run(ctx, THEOREMS, plan, 'proof',
                      'yymore/yyless/yyunput/yyinput scripts per action execution, %array and %pointer, reentrant and not, small buffers' + '. Kernel-checked theorems about the abstract scanner (listed under obligations) + differential '
                      'correspondence of the real generated scanner (ASan/UBSan build) with that model on generated cases.')

"""C08 runtime correspondence check (see DESIGN.md)."""
import os
from . import rtprop, common, flexrun, rules, rt

THEOREMS = ['FlexVerif.match_conserves', 'FlexVerif.less_conserves', 'FlexVerif.unput_conserves', 'FlexVerif.input_conserves']


def known_f08(ctx, results):
    """targeted probe for known finding F08: %array scanner, yymore() then yyless(n)"""
    flex, src = flexrun.build_flex()
    work = flexrun.scratch_root()
    rs = rules.RuleSet()
    rs.rules = [{'scs': [], 'all': False, 'bol': False, 'head': ('plus', ('chr', 97)), 'trail': None, 'dollar': False},
                {'scs': [], 'all': False, 'bol': False, 'head': ('plus', ('chr', 98)), 'trail': None, 'dollar': False}]
    import random
    diffs = {}
    for arr in (False, True):
        cfg = rt.Config(array=arr, yymore=True)
        b = rt.build_scanner(flex, src, work, 'c08_f08_%d' % arr, rs, cfg, lex_seed=1)
        if b['status'] != 'ok':
            continue
        ct = rt.case_text(rs, b, cfg, [[97, 97, 98, 98, 98, 97]], ['lex'], acts={0: ['more'], 1: ['less:1']})
        cfn = os.path.join(work, 'c08_f08.case')
        open(cfn, 'w').write(ct)
        real = rt.run_real(b['exe'], cfn)
        mod = rt.run_model(cfn, spec=True)
        diffs[arr] = rt.first_diff(real['out'], mod['out'])
    kf = {f['id']: f for f in common.load_known_findings().get('findings', [])}
    if diffs.get(True) is not None and diffs.get(False) is None:
        what = '%array scanner: yyless(n) on a token carrying a yymore() prefix keeps prefix+n characters (a %pointer scanner keeps n): ' + str(diffs[True])
        if kf.get('F08', {}).get('status') == 'known':
            print('KNOWN-FINDING: property=C08 ' + what)
        else:
            ctx.violation(what, {'finding': 'F08', 'diff': diffs[True]})
    elif diffs.get(False) is not None:
        ctx.violation('yymore()+yyless(n) probe: %pointer scanner differs from the specification: ' + str(diffs[False]), {'diff': diffs[False]})


def run(ctx):
    q1, q2, q3 = {'quick': (64, 48, 32), 'thorough': (600, 400, 200)}[ctx.tier]
    plan = [('ops', q1, 8), ('unput', q2, 6), ('arraymore', q3, 6), ('eof', q3, 6)]
    return rtprop.run(ctx, THEOREMS, plan, 'proof',
                      'yymore/yyless/yyunput/yyinput scripts per action execution, %array and %pointer, reentrant and not, small buffers' + '. Kernel-checked theorems about the abstract scanner (listed under obligations) + differential '
                      'correspondence of the real generated scanner (ASan/UBSan build) with that model on generated cases.',
                      post=known_f08)

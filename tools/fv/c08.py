"""C08 runtime correspondence check (see DESIGN.md)."""
import os
from . import rtprop, common, flexrun, rules, rt

THEOREMS = ['FlexVerif.match_conserves', 'FlexVerif.less_conserves', 'FlexVerif.unput_conserves', 'FlexVerif.input_conserves']


def known_f08(ctx, results):
    """targeted probe for known finding F08: %array scanner, yymore() then yyless(n)"""
    flex, src = flexrun.build_flex()
    work = flexrun.scratch_root()
    rs = rules.RuleSet()
    rs.rules = [{'scs': [], 'all': False, 'bol': False, 'head': ('plus', ('chr', 97)), 'trail': None, 'dollar': False},
                {'scs': [], 'all': False, 'bol': False, 'head': ('plus', ('chr', 98)), 'trail': None, 'dollar': False}]
    import random
    diffs = {}
    for arr in (False, True):
        cfg = rt.Config(array=arr, yymore=True)
        b = rt.build_scanner(flex, src, work, 'c08_f08_%d' % arr, rs, cfg, lex_seed=1)
        if b['status'] != 'ok':
            continue
        ct = rt.case_text(rs, b, cfg, [[97, 97, 98, 98, 98, 97]], ['lex'], acts={0: ['more'], 1: ['less:1']})
        cfn = os.path.join(work, 'c08_f08.case')
        open(cfn, 'w').write(ct)
        real = rt.run_real(b['exe'], cfn)
        mod = rt.run_model(cfn, spec=True)
        diffs[arr] = rt.first_diff(real['out'], mod['out'])
    kf = {f['id']: f for f in common.load_known_findings().get('findings', [])}
    if diffs.get(True) is not None and diffs.get(False) is None:
        what = '%array scanner: yyless(n) on a token carrying a yymore() prefix keeps prefix+n characters (a %pointer scanner keeps n): ' + str(diffs[True])
        if kf.get('F08', {}).get('status') == 'known':
            print('KNOWN-FINDING: property=C08 ' + what)
        else:
            ctx.violation(what, {'finding': 'F08', 'diff': diffs[True]})
    elif diffs.get(False) is not None:
        ctx.violation('yymore()+yyless(n) probe: %pointer scanner differs from the specification: ' + str(diffs[False]), {'diff': diffs[False]})


UNPUT_THEOREMS = ['FlexVerif.C08Unput.' + t for t in ('shiftUp_get', 'copy_loop', 'unput_shape', 'unput_noshift', 'unput_shift',
                                                      'unput_overflow', 'unput_spec')]
UNPUT_THEOREMS += ['FlexVerif.C08UnputC99.' + t for t in ('unput99_shape', 'tail_rel', 'unput_rel', 'unput99_spec')]


YYLESS_THEOREMS = ['FlexVerif.C08YYLess.' + t for t in ('ln_loop', 'less_action_spec', 'less_section3_spec', 'both_definitions_agree')]


def regen_yyless():
    """translate the two definitions of the yyless(n) macro (scanner generated now, %option yylineno) into lean/FlexVerif/Gen/YYLess.lean"""
    import os, fcntl
    from . import flexrun, gen_yyless, common
    flex, src = flexrun.build_flex()
    try:
        body, info = gen_yyless.generate(flex, flexrun.scratch_root())
    except gen_yyless.TranslateError as e:
        return None, str(e)
    path = os.path.join(common.LEAN_DIR, 'FlexVerif', 'Gen', 'YYLess.lean')
    lock = open(os.path.join(common.LEAN_DIR, '.build.lock'), 'w')
    fcntl.flock(lock, fcntl.LOCK_EX)
    try:
        old = open(path).read() if os.path.exists(path) else ''
        if old != body:
            open(path, 'w').write(body)
    finally:
        fcntl.flock(lock, fcntl.LOCK_UN)
        lock.close()
    return info, None


def regen_unput():
    """translate yyunput_r() of a scanner flex generates now into lean/FlexVerif/Gen/Unput.lean"""
    import os, fcntl
    from . import flexrun, gen_unput, common
    flex, src = flexrun.build_flex()
    try:
        body, info = gen_unput.generate(flex, flexrun.scratch_root())
        body99, info99 = gen_unput.generate_c99(flex, flexrun.scratch_root())
    except gen_unput.TranslateError as e:
        return None, str(e)
    files = [(os.path.join(common.LEAN_DIR, 'FlexVerif', 'Gen', 'Unput.lean'), body),
             (os.path.join(common.LEAN_DIR, 'FlexVerif', 'Gen', 'UnputC99.lean'), body99)]
    lock = open(os.path.join(common.LEAN_DIR, '.build.lock'), 'w')
    fcntl.flock(lock, fcntl.LOCK_EX)
    try:
        for path, text in files:
            old = open(path).read() if os.path.exists(path) else ''
            if old != text:
                open(path, 'w').write(text)
    finally:
        fcntl.flock(lock, fcntl.LOCK_UN)
        lock.close()
    return info, None


def run(ctx):
    info, err = regen_unput()
    if err:
        ctx.violation('translator of yyunput_r() gave up: ' + err, {'error': err}, no_input=True)
    info, err = regen_yyless()
    if err:
        ctx.violation('translator of the yyless() macros gave up: ' + err, {'error': err}, no_input=True)
    q1, q2, q3 = {'quick': (64, 48, 32), 'thorough': (600, 400, 200)}[ctx.tier]
    plan = [('ops', q1, 8), ('unput', q2, 6), ('arraymore', q3, 6), ('eof', q3, 6), ('inputbol', q3, 6), ('memmore', q3, 6)]
    return rtprop.run(ctx, THEOREMS + UNPUT_THEOREMS + YYLESS_THEOREMS, plan, 'proof',
                      'yymore/yyless/yyunput/yyinput scripts per action execution, %array and %pointer, reentrant and not, small buffers; yyunput_r() itself is translated from a scanner flex generates in this run (Gen/Unput.lean: the character buffer as an array, every char* an offset, the shift loop a while loop) and proved for every buffer size, fill level, scan position and character: the push-back overflow error exactly when there is no room even after shifting, otherwise the unread text is the character followed by the unread text before, the end-of-buffer marks follow the data, and after a shift the buffer\'s own character count equals the scanner\'s (C08Unput.unput_spec); the two definitions of the yyless(n) macro (the one actions use and the one for section-3 code, with YY_LESS_LINENO as generated for %option yylineno) are translated the same way and proved, for every token, n and buffer content, to leave the same state: first n characters kept, scan position after them, hold character saved, the old end restored, yylineno lowered by the newlines given back (C08YYLess.less_action_spec, less_section3_spec, both_definitions_agree)' + '. Kernel-checked theorems about the abstract scanner (listed under obligations) + differential '
                      'correspondence of the real generated scanner (ASan/UBSan build) with that model on generated cases.',
                      post=known_f08)

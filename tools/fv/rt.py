"""Runtime correspondence: build a real scanner from a rule set + configuration, run it on a case
(input, read schedule, scripts), run the Lean abstract scanner on the same case, compare traces."""
import os, subprocess, random, time, hashlib
from . import flexrun, rules, patgen

HARNESS = os.path.join(flexrun.VERIF, 'harness')


class Config:
    def __init__(self, backend='nr', topt=('-Cem',), interactive=None, array=False, reject=False,
                 yymore=False, stack=False, lineno=False, eof_scs=(), sanitize=True, stdio=False, ledger=False, tables=None, prefix=None, yylmax=None,
                 bufsize=None):
        self.backend = backend
        self.topt = list(topt)
        self.interactive = interactive      # None / True / False
        self.array = array
        self.reject = reject
        self.yymore = yymore
        self.stack = stack
        self.lineno = lineno
        self.eof_scs = list(eof_scs)
        self.sanitize = sanitize
        self.stdio = stdio
        self.ledger = ledger
        self.tables = tables          # None | 'file' | 'verify'
        self.prefix = prefix
        self.yylmax = yylmax
        self.bufsize = bufsize        # c99 back end: YY_BUF_SIZE is a generation-time constant (%option bufsize)

    def key(self):
        return '%s %s I=%s arr=%d/%s rej=%d more=%d stk=%d ln=%d eof=%s stdio=%d led=%d' % (
            self.backend, ''.join(self.topt), self.interactive, self.array, self.yylmax, self.reject, self.yymore,
            self.stack, self.lineno, self.eof_scs, self.stdio, self.ledger)


def lex_text(rs, cfg, rng, vary=True):
    defs = ['#define FV_BACKEND_%s 1' % cfg.backend.upper()]
    if cfg.reject:
        defs.append('#define FV_USE_REJECT 1')
    if cfg.yymore:
        defs.append('#define FV_USE_YYMORE 1')
    if cfg.stack:
        defs.append('#define FV_USE_STACK 1')
    if cfg.stdio:
        defs.append('#define FV_STDIO 1')
    if cfg.ledger:
        defs.append('#define FV_LEDGER 1')
    if cfg.tables:
        defs.append('#define FV_TABLES 1')
    top = '%top{\n' + '\n'.join(defs) + '\n#include "fvh.h"\n}\n'
    opts = []
    c99 = cfg.backend == 'c99'
    if cfg.backend == 'r':
        opts.append('reentrant')
    if cfg.backend == 'cxx':
        opts.append('c++')
    if c99:
        opts.append('emit="c99"')
        opts.append('noyypanic')
        if not cfg.stdio:
            opts.append('noyyread')
        opts.append('bufsize=%d' % (cfg.bufsize or 16384))
    if cfg.array:
        opts.append('array')
    if cfg.reject and not c99:
        opts.append('reject')       # (c99: yyreject() stands in the action text and is detected)
    if cfg.yymore:
        opts.append('yymore')
    if cfg.stack:
        opts.append('stack')
    if cfg.lineno:
        opts.append('yylineno')
    if cfg.ledger:
        opts += ['noyyalloc', 'noyyrealloc', 'noyyfree']
    if cfg.prefix:
        opts.append('prefix="%s"' % cfg.prefix)
    if cfg.array and cfg.yylmax:
        opts.append('yylmax=%d' % cfg.yylmax)
    if cfg.interactive is True:
        opts.append('interactive')
    elif cfg.interactive is False:
        opts.append('batch')
    if getattr(cfg, 'always_interactive', False):
        # the buffer is treated as a terminal: the built-in input routine reads with getc() up to a newline
        opts.append('always-interactive')
    prologue = '%{\nstatic void fv_buffer_op(int op, long a, long b FV_PROTO_LAST);\n%}'
    act = lambda i: 'ACT(%d);' % i
    if cfg.backend == 'cxx':
        opts.append('yyclass="FvLexer"')
        prologue = ('%{\nstatic void fv_buffer_op(int op, long a, long b);\n'
                    'class FvLexer : public yyFlexLexer {\npublic:\n  virtual int yylex();\n'
                    '  virtual int yywrap() { fv_log_int("wrap", -1); return 1; }\nprotected:\n'
                    '  virtual int LexerInput(char *buf, int max_size) { return fv_read_cxx(buf, (size_t) max_size); }\n'
                    '  virtual void LexerError(const char *msg) { fv_fatal(msg); }\n};\n%}')
    if c99:
        prologue = ('%{\nstatic void fv_buffer_op(int op, long a, long b FV_PROTO_LAST);\n'
                    'static void yypanic(const char *msg, yyscan_t yyscanner);\n'
                    'static void yyless(int n, yyscan_t yyscanner);\n'
                    + ('' if cfg.stdio else 'static int yyread(char *buf, size_t max_size, yyscan_t yyscanner);\n')
                    + ('void *yyalloc(size_t n, yyscan_t yyscanner);\nvoid *yyrealloc(void *p, size_t n, yyscan_t yyscanner);\n'
                       'void yyfree(void *p, yyscan_t yyscanner);\n' if cfg.ledger else '') + '%}')
        # the whole interpreter loop stands in the action text: flex rewrites yytext, yyleng, yyless(),
        # yymore(), yyinput(), ... for this back end only where it sees them in an action
        def act(i):
            t = ('{ fv_cur_prefix = fv_more_set ? fv_last_leng : 0; fv_more_set = 0; fv_last_leng = (long) yyleng; '
                 'fv_log_match(%d, yytext, (long) yyleng, FV_LINENO_EXPR, yystart(), fv_bol_needed ? (int) yyatbol() : -1); '
                 'for (;;) { long a_ = 0, b_ = 0; int op_ = fv_next_op(&a_, &b_); if (op_ == FV_OP_END) break; '
                 'if (op_ == FV_OP_LESS || op_ == FV_OP_LESS3) { int n_ = (int) (fv_cur_prefix + a_ %% ((long) yyleng - fv_cur_prefix + 1)); '
                 'yyless(n_); fv_last_leng = (long) yyleng; fv_log_text("less", yytext, (long) yyleng); continue; } '
                 'if (op_ == FV_OP_UNPUT) { char ch_ = (char) a_; yyunput(ch_); continue; } '
                 'if (op_ == FV_OP_INPUT) { int c_ = yyinput(); fv_log_int("in", c_); continue; } '
                 'if (op_ == FV_OP_BEGIN) { int s_ = (int) a_; yybegin(s_); continue; } '
                 'if (op_ == FV_OP_START) { fv_log_int("start", yystart()); continue; } '
                 'if (op_ == FV_OP_ATBOL) { fv_log_int("atbol", (int) yyatbol()); continue; } '
                 'if (op_ == FV_OP_SETBOL) { bool f_ = a_ != 0; yysetbol(f_); continue; } '
                 'if (op_ == FV_OP_RETURN) return (int) a_; '
                 'if (op_ == FV_OP_TERMINATE) { yyterminate(); } ' % i)
            if cfg.yymore:
                t += 'if (op_ == FV_OP_MORE) { yymore(); fv_more_set = 1; continue; } '
            if cfg.reject:
                t += 'if (op_ == FV_OP_REJECT) { yyreject(); } '
            t += 'FV_OPS_REST(op_, a_, b_) } }'
            return t
    text = rs.to_lex(rng, action=act, prologue=prologue,
                     epilogue='#include "fvmain_cxx.cc"\n' if cfg.backend == 'cxx' else '#include "fvmain.c"\n',
                     vary=vary, extra_options=opts, pct_actions=cfg.backend != 'c99')
    # user <<EOF>> actions
    if cfg.eof_scs:
        eof = ''
        own = getattr(cfg, 'eof_own', None)
        for sc in (cfg.eof_scs if own is None else own):
            eof += '<%s><<EOF>>\tACT_EOF(%d);\n' % (rs.scs[sc][0], sc)
        if own is not None:
            # an unqualified <<EOF>> rule: applies to exactly the start conditions lacking their own
            eof += '<<EOF>>\tACT_EOF(99);\n'
        a, b, c = text.split('\n%%\n')
        text = a + '\n%%\n' + b + '\n' + eof.rstrip('\n') + '\n%%\n' + c
    return top + text


def build_scanner(flex, flexsrc, workdir, name, rs, cfg, lex_seed=0, flex_timeout=10):
    rng = random.Random(lex_seed)
    lf = os.path.join(workdir, name + '.l')
    cf = os.path.join(workdir, name + ('.cc' if cfg.backend == 'cxx' else '.c'))
    exe = os.path.join(workdir, name + '.exe')
    text = lex_text(rs, cfg, rng)
    if random.Random(lex_seed ^ 0xc41f).random() < float(os.environ.get('FV_CRLF_P', '0.06')):
        text = text.replace('\n', '\r\n')          # a rule file with CR-LF line ends
    open(lf, 'w', encoding='latin1', newline='').write(text)
    from . import tv as _tv
    opts = _tv.opts_for(rs, cfg.topt, lex_seed)
    tpath = None
    if cfg.tables:
        tpath = os.path.join(workdir, name + '.tables')
        opts.append('--tables-file=' + tpath)
        if cfg.tables == 'verify':
            opts.append('--tables-verify')
    rc, so, se = flexrun.run_flex(flex, lf, cf, opts, timeout=flex_timeout)
    b = {'lex': text, 'opts': opts, 'flex_rc': rc, 'flex_stderr': se[-3000:], 'lfile': lf, 'cfile': cf,
         'exe': exe, 'cfg': cfg.key(), 'tables_path': tpath}
    if rc != 0:
        b['status'] = 'slow' if rc == -999 else 'flexfail'
        return b
    ctext = open(cf, encoding='latin1').read()
    tl, t, flags = flexrun.table_lines(ctext)
    if cfg.tables == 'file':
        # the automaton is not in the C file: decode the serialized tables with the Lean codec
        sets = flexrun.parse_tables_file(tpath)
        b['table_sets'] = [{k: v for k, v in s_.items() if k != 'tables'} for s_ in sets]
        if sets and not sets[0].get('undecodable'):
            A = flexrun.arrays_of_set(sets[0])
            tl, flags = flexrun.table_lines_from_arrays(A, t['consts'])
            t = {'arrays': A, 'consts': t['consts']}
    b['table_lines'] = tl
    b['flags'] = flags
    # what the user asked for (manual: interactive unless -Cf/-CF or %option batch is given) — taken
    # from the options, not from the generated code, so that the model states the expectation
    fullish = any(('f' in o or 'F' in o) for o in cfg.topt)
    b['flags']['interactive'] = int(cfg.interactive is True or (cfg.interactive is None and not fullish))
    b['var_rules'] = flexrun.var_rules_of(t)
    extra = set(b['var_rules']) - rs.expected_var_rules()
    if extra:
        b['status'] = 'ccfail'      # reported like a scanner that cannot be built
        b['cc_output'] = ('flex treats rule(s) %s as variable trailing context rules, but head or trailing part have a fixed length '
                          'and no \'|\' action precedes' % sorted(extra))
        return b
    cc = ['g++' if cfg.backend == 'cxx' else 'gcc', '-w', '-O0', '-g', '-D_GNU_SOURCE', '-I', HARNESS, '-I', flexsrc, cf, '-o', exe]
    if cfg.backend == 'cxx':
        cc[1:1] = ['-fpermissive']
    if cfg.sanitize:
        cc[1:1] = ['-fsanitize=address,undefined', '-fno-sanitize-recover=all']
    p = subprocess.run(cc, stdout=subprocess.PIPE, stderr=subprocess.STDOUT, text=True)
    if p.returncode != 0:
        b['status'] = 'ccfail'
        b['cc_output'] = p.stdout[-3000:]
        return b
    b['status'] = 'ok'
    return b


def case_text(rs, build, cfg, srcs, main, acts=None, wraps=None, sched=None, bufsize=16384,
              maxevents=20000, eofact=None, eacts=None, readerr=None, readerr1=None, eintr=None, allocfail=None, tfiles=None,
              logreads=False):
    lines = rs.case_lines(build.get('var_rules', ())) + build['table_lines']
    for i, s in enumerate(srcs):
        lines.append('src %d %s' % (i, bytes(s).hex()))
    if sched:
        lines.append('sched ' + ' '.join(str(x) for x in sched))
    lines.append('bufsize %d' % bufsize)
    lines.append('maxevents %d' % maxevents)
    lines.append('bolneeded %d' % (1 if any(r['bol'] for r in rs.rules) else 0))
    lines.append('haslineno %d' % (1 if cfg.lineno else 0))
    lines.append('reentrant %d' % (1 if cfg.backend in ('r', 'c99') else 0))
    if logreads:
        # the harness prints, and the model predicts, how many bytes the scanner has asked its input
        # routine for when each action starts (meaningful with 1-byte reads from a single source)
        lines.append('logreads %d' % (2 if logreads == 2 else 1))      # 2: every read request (`rq n`) instead
        lines.append('interactive %d' % (1 if build['flags'].get('interactive') else 0))
    if cfg.array and cfg.backend != 'cxx':        # (%array is overridden, with a warning, for C++ scanners)
        lines.append('yylmax %d' % (cfg.yylmax or 8192))
    if any(r.get('chain') for r in rs.rules):
        # a rule with a '|' action runs the action of the next rule that has one
        tgt = []
        n = len(rs.rules)
        for i, r in enumerate(rs.rules):
            j = i
            while j < n and rs.rules[j].get('chain'):
                j += 1          # past the last rule: the chain ends in the default rule (n + 1)
            tgt.append(j + 1)
        lines.append('chain ' + ' '.join(str(t) for t in tgt) + ' %d' % (n + 1))
    if cfg.eof_scs:
        lines.append('eofscs ' + ' '.join(str(s) for s in cfg.eof_scs))
    for i, pth in enumerate(tfiles or []):
        lines.append('tfile %d %s' % (i, pth))
    if readerr:
        lines.append('readerr ' + ' '.join(str(x) for x in readerr))
    if readerr1:
        lines.append('readerr1 ' + ' '.join(str(x) for x in readerr1))
    if eintr:
        lines.append('eintr ' + ' '.join(str(x) for x in eintr))
    if allocfail is not None:
        lines.append('allocfail %d' % allocfail)
    if eofact:
        lines.append('eofact ' + ' '.join(eofact))
    lines.append('main ' + ' '.join(main))
    for k, a in sorted((acts or {}).items()):
        if a:
            lines.append('act %d %s' % (k, ' '.join(a)))
    for k, a in sorted((eacts or {}).items()):
        if a:
            lines.append('eact %d %s' % (k, ' '.join(a)))
    if wraps:
        lines.append('wrap ' + ' '.join('-' if w is None else str(w) for w in wraps))
    return '\n'.join(lines) + '\n'


def _clip(e):
    return e if len(e) < 3000 else e[:2200] + '\n...\n' + e[-600:]


def run_real(exe, casefile, timeout=20):
    env = dict(os.environ)
    env['ASAN_OPTIONS'] = 'detect_leaks=0:abort_on_error=0:exitcode=66'
    env['UBSAN_OPTIONS'] = 'halt_on_error=1:exitcode=67'
    try:
        p = subprocess.run([exe, casefile], stdin=subprocess.DEVNULL, stdout=subprocess.PIPE,
                           stderr=subprocess.PIPE, timeout=timeout, env=env)
    except subprocess.TimeoutExpired:
        return {'rc': -999, 'out': [], 'err': 'timeout'}
    err = p.stderr.decode('latin1')
    stats = {}
    import re as _re
    m = _re.search(r'^stats (.*)$', err, _re.M)
    if m:
        for kv in m.group(1).split():
            k, v = kv.split('=')
            stats[k] = int(v)
    return {'rc': p.returncode, 'out': p.stdout.decode('latin1').split('\n'),
            'err': _clip(err), 'stats': stats}


def run_model(casefile, spec=False, timeout=60):
    args = ['trace', casefile] + (['--spec'] if spec else [])
    try:
        rc, out, err = flexrun.run_driver(args, timeout=timeout)
    except subprocess.TimeoutExpired:
        return {'rc': -999, 'out': [], 'err': 'timeout'}
    return {'rc': rc, 'out': out.split('\n'), 'err': err[-2000:]}


def run_bufmodel(casefile, timeout=60):
    """the buffer-level machine (Runtime/Buf.lean) on the emitted tables: `rq n` and `m rule hex` lines"""
    try:
        rc, out, err = flexrun.run_driver(['bufrun', casefile], timeout=timeout)
    except subprocess.TimeoutExpired:
        return {'rc': -999, 'out': [], 'err': 'timeout'}
    return {'rc': rc, 'out': [l for l in out.split('\n') if l], 'err': err[-2000:]}


def buf_view(real_out):
    """what the buffer-level machine predicts of a real trace: read requests and (rule, text) of tokens"""
    v = []
    for l in real_out:
        w = l.split(' ')
        if w[0] == 'rq':
            v.append(l)
        elif w[0] == 'm':
            v.append('m %s %s' % (w[1], w[2]))
        elif w[0] == 'fatal':
            v.append(l)
    return v


def first_diff(a, b):
    """first difference between the real trace `a` and a model trace `b`.  A `mayfatal` line of the
    model marks a token at which the generated %array scanner may report "token too large" because
    of look-ahead text (known finding F28; depends on refill points): a real `fatal yylmax` there is
    accepted and ends the comparison, otherwise the marker is dropped."""
    a = [l for l in a if l != '']
    b = [l for l in b if l != '']
    i = j = 0
    while i < len(a) and j < len(b):
        if b[j] == 'mayfatal':
            if a[i] == 'fatal yylmax':
                return None
            j += 1
            continue
        if a[i] != b[j]:
            return i, a[i], b[j]
        i += 1
        j += 1
    while j < len(b) and b[j] == 'mayfatal':
        j += 1
    if i < len(a) or j < len(b):
        return i, (a[i] if i < len(a) else '<none>'), (b[j] if j < len(b) else '<none>')
    return None

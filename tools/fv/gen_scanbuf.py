"""Translator: yy_scan_buffer() of a scanner flex has just generated  ->  lean/FlexVerif/Gen/ScanBuf.lean.

The array is the caller's memory `base` (`size` cells); the new buffer's fields are variables; `b` is 1 once
`yyalloc(sizeof(struct yy_buffer_state))` has succeeded (its failure is the business of C14); `base` as a value is
offset 0.  `||` and `&&` keep C's short-circuit evaluation (`cond`): `base[size-2]` must not be read when `size < 2`.
`yy_switch_to_buffer(b)` is a logged call.
"""
import os, re, subprocess
from .gen_options import tokenize, TranslateError
from . import gen_startstack as G
from . import gen_yyless as Y

FIELDS = ['yy_buf_size', 'yy_buf_pos', 'yy_ch_buf', 'yy_is_our_buffer', 'yy_input_file', 'yy_n_chars', 'yy_is_interactive',
          'yyatbol', 'yy_bs_lineno', 'yy_bs_column', 'yy_fill_buffer', 'yy_buffer_status']
VARS = ['size', 'b'] + ['b->' + f for f in FIELDS]
LEAN_NAMES = ['vSize', 'vB', 'fBufSize', 'fBufPos', 'fChBuf', 'fOurs', 'fFile', 'fNChars', 'fInteractive', 'fAtBol', 'fLineno',
              'fColumn', 'fFill', 'fStatus']


class P(Y.P):
    TYPES = Y.P.TYPES + ('yybuffer',)


class Tr(Y.Tr):
    def var(self, name):
        if name not in VARS:
            raise TranslateError('variable %s is not part of yy_scan_buffer' % name)
        return VARS.index(name)

    def ex(self, e):
        k = e[0]
        if k == 'id' and e[1] == 'base':
            return [], '(.lit 0)', []
        if k == 'index' and e[1] == ('id', 'base'):
            p, i, q = self.ex(e[2])
            return p, '(.idx %s)' % i, q
        if k == 'bin' and e[1] in ('||', '&&'):
            p1, a, q1 = self.ex(e[2]); p2, b, q2 = self.ex(e[3])
            if p1 or q1 or p2 or q2:
                raise TranslateError('side effect inside || / &&')
            nb = '(.not (.eq %s (.lit 0)))' % b
            if e[1] == '||':
                return [], '(.cond %s (.lit 1) %s)' % (a, nb), []
            return [], '(.cond %s %s (.lit 0))' % (a, nb), []
        return super().ex(e)

    def st(self, s):
        if s[0] == 'expr' and s[1][0] == 'call' and s[1][1] == 'yy_switch_to_buffer':
            p, a, q = self.ex(s[1][2][0])
            if p or q:
                raise TranslateError('side effect in an argument')
            return '(.call 0 %s)' % a
        return super().st(s)


PROBE = '%option noyywrap\n%%\na ;\n%%\n'


def translate(text):
    m = re.search(r'\n\s*yybuffer\s+yy_scan_buffer\s*\([^)]*\)\s*\{', text)
    if not m:
        raise TranslateError('function yy_scan_buffer not found in the generated scanner')
    i = m.end() - 1
    depth, j = 0, i
    while True:
        if text[j] == '{':
            depth += 1
        elif text[j] == '}':
            depth -= 1
            if depth == 0:
                break
        j += 1
    body = re.sub(r'/\*.*?\*/', ' ', text[i:j + 1], flags=re.S)
    body, n = re.subn(r'\(\s*yybuffer\s*\)\s*yyalloc\s*\(\s*sizeof\s*\(\s*struct\s+yy_buffer_state\s*\)\s*\)', ' FV_NEW_BUFFER ', body)
    if n != 1:
        raise TranslateError('the allocation of the buffer structure was not found')
    consts = {'NULL': 0, 'FV_NEW_BUFFER': 1}
    for name in ('YY_END_OF_BUFFER_CHAR', 'YY_BUFFER_NEW'):
        mm = re.search(r'^[ \t]*#[ \t]*define[ \t]+' + name + r'[ \t]+\(?(\d+)\)?', text, re.M) or re.search(r'\b' + name + r'\s*=\s*(\d+)', text)
        if not mm:
            raise TranslateError('constant %s not found' % name)
        consts[name] = int(mm.group(1))
    msgs = []
    tr = Tr({}, consts, msgs)
    return tr.st(P(tokenize(body)).stmt()), msgs, consts


BVARS = ['_yybytes_len', 'n', 'i', 'buf', 'b', 'b->yy_is_our_buffer', 'scan_result']
BLEAN = ['vLen', 'vN', 'vI', 'vBuf', 'vB', 'fOurs', 'vScanResult']


class TrB(Y.Tr):
    """yy_scan_bytes(): the array is the fresh memory `buf`, the caller's bytes are the read-only table 0"""
    def var(self, name):
        if name not in BVARS:
            raise TranslateError('variable %s is not part of yy_scan_bytes' % name)
        return BVARS.index(name)

    def ex(self, e):
        k = e[0]
        if k == 'index' and e[1] == ('id', 'buf'):
            p, i, q = self.ex(e[2])
            return p, '(.idx %s)' % i, q
        if k == 'index' and e[1] == ('id', 'yybytes'):
            p, i, q = self.ex(e[2])
            return p, '(.tab 0 %s)' % i, q
        return super().ex(e)

    def assign(self, e):
        lv, op, rhs = e[1], e[2], e[3]
        if lv == ('id', 'buf') and op == '=' and rhs[0] == 'call' and rhs[1] == 'yyalloc':
            p, n, q = self.ex(rhs[2][0])
            if p or q:
                raise TranslateError('side effect in an allocation size')
            return ['(.growTo %s)' % n, '(.assign %d (.lit 1))' % BVARS.index('buf')]
        if lv == ('id', 'b') and op == '=' and rhs[0] == 'call' and rhs[1] == 'yy_scan_buffer':
            # yy_scan_buffer(buf, n): a logged call (with the size), its result whatever the variable scan_result holds
            if rhs[2][0] != ('id', 'buf'):
                raise TranslateError('yy_scan_buffer called on something else than buf')
            p, n, q = self.ex(rhs[2][1])
            return ['(.call 0 %s)' % n, '(.assign %d (.var %d))' % (BVARS.index('b'), BVARS.index('scan_result'))]
        if lv[0] == 'index' and lv[1] == ('id', 'buf') and op == '=' and rhs[0] != 'assign':
            p1, i, q1 = self.ex(lv[2]); p2, r, q2 = self.ex(rhs)
            return p1 + p2 + ['(.store %s %s)' % (i, r)] + q1 + q2
        return super().assign(e)


def translate_bytes(text):
    m = re.search(r'\n\s*yybuffer\s+yy_scan_bytes\s*\([^)]*\)\s*\{', text)
    if not m:
        raise TranslateError('function yy_scan_bytes not found in the generated scanner')
    i = m.end() - 1
    depth, j = 0, i
    while True:
        if text[j] == '{':
            depth += 1
        elif text[j] == '}':
            depth -= 1
            if depth == 0:
                break
        j += 1
    body = re.sub(r'/\*.*?\*/', ' ', text[i:j + 1], flags=re.S)
    consts = {'NULL': 0}
    mm = re.search(r'^[ \t]*#[ \t]*define[ \t]+YY_END_OF_BUFFER_CHAR[ \t]+\(?(\d+)\)?', text, re.M)
    if not mm:
        raise TranslateError('constant YY_END_OF_BUFFER_CHAR not found')
    consts['YY_END_OF_BUFFER_CHAR'] = int(mm.group(1))
    msgs = []
    tr = TrB({}, consts, msgs)
    return tr.st(P(tokenize(body)).stmt()), msgs


def lean_file(ns, prog, msgs, consts, origin):
    q = lambda s: '"' + s.replace('\\', '\\\\').replace('"', '\\"') + '"'
    L = ['-- GENERATED by tools/fv/gen_scanbuf.py from %s.  Do not edit.' % origin,
         'import FlexVerif.Imp.Lang',
         'namespace FlexVerif.Gen.' + ns,
         'open FlexVerif.Imp',
         '/-- variables: ' + ', '.join('%d = %s' % (i, n) for i, n in enumerate(VARS)) + "; the array: the caller's memory `base` -/"]
    L += ['def %s : Nat := %d' % (n, i) for i, n in enumerate(LEAN_NAMES)]
    L += ['def msgs : List String := [%s]' % ', '.join(q(m) for m in msgs),
          'def cYY_BUFFER_NEW : Int := %d' % consts['YY_BUFFER_NEW'],
          '/-- yy_scan_buffer(base, size) -/', 'def scanBuffer : St :=\n  ' + prog, 'end FlexVerif.Gen.' + ns]
    return '\n'.join(L) + '\n'


def generate(flex, workdir):
    lf = os.path.join(workdir, 'scanbuf_probe.l')
    cf = os.path.join(workdir, 'scanbuf_probe.c')
    open(lf, 'w').write(PROBE)
    p = subprocess.run([flex, '-L', '-o', cf, lf], stdout=subprocess.PIPE, stderr=subprocess.PIPE, text=True)
    if p.returncode != 0:
        raise TranslateError('flex failed on the probe: ' + p.stderr[-200:])
    text = open(cf, errors='replace').read()
    prog, msgs, consts = translate(text)
    bprog, bmsgs = translate_bytes(text)
    for f in (lf, cf):
        try:
            os.unlink(f)
        except OSError:
            pass
    q = lambda s: '"' + s.replace('\\', '\\\\').replace('"', '\\"') + '"'
    t = lean_file('ScanBuf', prog, msgs, consts, "a scanner flex (built from /repo's current tree) has just generated")
    extra = ['namespace FlexVerif.Gen.ScanBytes', 'open FlexVerif.Imp',
             '/-- variables: ' + ', '.join('%d = %s' % (i, n) for i, n in enumerate(BVARS)) + '; the array: the fresh memory buf; table 0: the bytes handed in -/']
    extra += ['def %s : Nat := %d' % (n, i) for i, n in enumerate(BLEAN)]
    extra += ['def msgs : List String := [%s]' % ', '.join(q(m) for m in bmsgs),
              '/-- yy_scan_bytes(yybytes, _yybytes_len) -/', 'def scanBytes : St :=\n  ' + bprog, 'end FlexVerif.Gen.ScanBytes']
    return t + '\n'.join(extra) + '\n', {'messages': msgs}


if __name__ == '__main__':
    import sys
    t, info = generate(sys.argv[1], sys.argv[2])
    sys.stdout.write(t)

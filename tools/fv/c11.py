"""C11 runtime correspondence check (see DESIGN.md)."""
from . import rtprop

THEOREMS = ['FlexVerif.bufferOp_start', 'FlexVerif.match_conserves', 'FlexVerif.less_conserves']


STACK_THEOREMS = ['FlexVerif.C11Stack.' + t for t in ('ensure_spec', 'push_refines', 'pop_refines', 'switch_refines', 'current_refines',
                                                      'stack_refines', 'current_after', 'deleted_after')]

STACK_THEOREMS += ['FlexVerif.C11StackC99.' + t for t in ('push_same', 'pop_same', 'switch_same', 'ensure_same', 'stack_refines_c99', 'current_after_c99')]

STACK_THEOREMS += ['FlexVerif.C11ScanBuf.' + t for t in ('scanBuffer_shape', 'guard_eval', 'scanBuffer_refuses', 'scanBuffer_accepts',
                                                         'scanned_fields', 'scanBuffer_spec')]
STACK_THEOREMS += ['FlexVerif.C11ScanBytes.' + t for t in ('scanBytes_shape', 'copy_loop', 'two_marks', 'scanBytes_spec', 'copy_terminated')]

FLUSH_THEOREMS = ['FlexVerif.C11Flush.' + t for t in ('flush_null', 'flush_spec', 'init_spec', 'create_spec', 'delete_spec', 'restart_current', 'restart_fresh')] + \
    ['FlexVerif.C11FlushC99.' + t for t in ('load_same', 'flush_same', 'flush99_spec', 'init99_spec', 'create99_spec', 'delete_same', 'delete99_spec', 'restart99_current', 'restart99_fresh')]
STACK_THEOREMS += FLUSH_THEOREMS


def regen_flush():
    """translate yy_flush_buffer() / yy_load_buffer_state() / yy_init_buffer() of a scanner flex generates now into
    lean/FlexVerif/Gen/Flush.lean"""
    import os, fcntl
    from . import flexrun, gen_flush, common
    flex, src = flexrun.build_flex()
    try:
        body, info = gen_flush.generate(flex, flexrun.scratch_root())
        body99, info99 = gen_flush.generate_c99(flex, flexrun.scratch_root())
    except gen_flush.TranslateError as e:
        return None, str(e)
    files = [(os.path.join(common.LEAN_DIR, 'FlexVerif', 'Gen', 'Flush.lean'), body),
             (os.path.join(common.LEAN_DIR, 'FlexVerif', 'Gen', 'FlushC99.lean'), body99)]
    lock = open(os.path.join(common.LEAN_DIR, '.build.lock'), 'w')
    fcntl.flock(lock, fcntl.LOCK_EX)
    try:
        for path, text in files:
            old = open(path).read() if os.path.exists(path) else ''
            if old != text:
                open(path, 'w').write(text)
    finally:
        fcntl.flock(lock, fcntl.LOCK_UN)
        lock.close()
    return info, None


def regen_scanbuf():
    """translate yy_scan_buffer() of a scanner flex generates now into lean/FlexVerif/Gen/ScanBuf.lean"""
    import os, fcntl
    from . import flexrun, gen_scanbuf, common
    flex, src = flexrun.build_flex()
    try:
        body, info = gen_scanbuf.generate(flex, flexrun.scratch_root())
    except gen_scanbuf.TranslateError as e:
        return None, str(e)
    path = os.path.join(common.LEAN_DIR, 'FlexVerif', 'Gen', 'ScanBuf.lean')
    lock = open(os.path.join(common.LEAN_DIR, '.build.lock'), 'w')
    fcntl.flock(lock, fcntl.LOCK_EX)
    try:
        old = open(path).read() if os.path.exists(path) else ''
        if old != body:
            open(path, 'w').write(body)
    finally:
        fcntl.flock(lock, fcntl.LOCK_UN)
        lock.close()
    return info, None


def regen_bufstack():
    """translate yyensure_buffer_stack / yypush_buffer_state / yypop_buffer_state / yy_switch_to_buffer / yy_current_buffer() from a
    scanner flex generates now into lean/FlexVerif/Gen/BufStack.lean"""
    import os, fcntl
    from . import flexrun, gen_bufstack, common
    flex, src = flexrun.build_flex()
    try:
        body, info = gen_bufstack.generate(flex, flexrun.scratch_root())
        body99, info99 = gen_bufstack.generate_c99(flex, flexrun.scratch_root())
    except gen_bufstack.TranslateError as e:
        return None, str(e)
    info = dict(info or {}); info['c99'] = info99
    files = [(os.path.join(common.LEAN_DIR, 'FlexVerif', 'Gen', 'BufStack.lean'), body),
             (os.path.join(common.LEAN_DIR, 'FlexVerif', 'Gen', 'BufStackC99.lean'), body99)]
    lock = open(os.path.join(common.LEAN_DIR, '.build.lock'), 'w')
    fcntl.flock(lock, fcntl.LOCK_EX)
    try:
        for path, text in files:
            old = open(path).read() if os.path.exists(path) else ''
            if old != text:
                open(path, 'w').write(text)
    finally:
        fcntl.flock(lock, fcntl.LOCK_UN)
        lock.close()
    return info, None


def run(ctx):
    info3, err3 = regen_flush()
    if err3:
        ctx.violation('translator of yy_flush_buffer() / yy_init_buffer() gave up: ' + err3, {'error': err3}, no_input=True)
    info2, err2 = regen_scanbuf()
    if err2:
        ctx.violation('translator of yy_scan_buffer() gave up: ' + err2, {'error': err2}, no_input=True)
    info, err = regen_bufstack()
    if err:
        ctx.violation('translator of the buffer stack functions gave up: ' + err, {'error': err}, no_input=True)
    q1, q2, q3 = {'quick': (64, 48, 32), 'thorough': (600, 400, 200)}[ctx.tier]
    plan = [('buffers', q1, 8), ('include', q2, 6), ('wrapbol', q2, 6), ('switchwrap', q3, 6)]
    return rtprop.run(ctx, THEOREMS + STACK_THEOREMS, plan, 'proof',
                      'multiple input buffers: histories of create/scan_string/scan_bytes/scan_buffer (with and without the two NULs)/switch/push/pop/flush/delete between yylex calls and from inside actions (nested includes ended by <<EOF>> actions that pop and continue), buffer sizes 1..16384, per-buffer line numbers in reentrant scanners; the abstract scanner keeps one independent unread-input list per buffer; the buffer *stack* code itself (yyensure_buffer_stack, yypush_buffer_state, yypop_buffer_state, yy_switch_to_buffer, yy_current_buffer()) is translated from a scanner flex generates in this run (Gen/BufStack.lean) and proved to implement a stack of buffer handles for every sequence of calls, with exactly the popped buffers deleted and no access to yy_buffer_stack[] out of bounds - growth by 8 slots and zeroing of fresh slots included (C11Stack.stack_refines, current_after, deleted_after); what those functions do to the *contents* of buffers is outside that translation' + '. Kernel-checked theorems about the abstract scanner (listed under obligations) + differential '
                      'correspondence of the real generated scanner (ASan/UBSan build) with that model on generated cases.')

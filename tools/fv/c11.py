"""C11 runtime correspondence check (see DESIGN.md)."""
from . import rtprop

THEOREMS = ['FlexVerif.bufferOp_start', 'FlexVerif.match_conserves', 'FlexVerif.less_conserves']


def run(ctx):
    q1, q2, q3 = {'quick': (64, 48, 32), 'thorough': (600, 400, 200)}[ctx.tier]
    plan = [('buffers', q1, 8), ('include', q2, 6), ('wrapbol', q2, 6)]
    return rtprop.run(ctx, THEOREMS, plan, 'exploration',
                      'multiple input buffers: histories of create/scan_string/scan_bytes/scan_buffer (with and without the two NULs)/switch/push/pop/flush/delete between yylex calls and from inside actions (nested includes ended by <<EOF>> actions that pop and continue), buffer sizes 1..16384, per-buffer line numbers in reentrant scanners; the abstract scanner keeps one independent unread-input list per buffer' + '. Kernel-checked theorems about the abstract scanner (listed under obligations) + differential '
                      'correspondence of the real generated scanner (ASan/UBSan build) with that model on generated cases.')

#!/usr/bin/env python3
"""Extract the emitted DFA tables and constants from a flex-generated scanner source.

Works on the text of the generated file (all back ends): array initialisers
`... yy_NAME[..] = { ... };`, 2-d `yy_nxt[][N]`, `yy_transition` records,
`yy_start_state_list` pointer lists, and `#define YY_XXX n` constants
(c99 emits `const int YY_XXX = n;` / enum-like forms as well).
"""
import re, sys, json

ARR_RE = re.compile(
    r'(?:static\s+)?const\s+((?:struct\s+)?[\w]+(?:\s+[\w]+)*)\s*\*?\s*\b(yy_\w+)\s*((?:\[\s*\w*\s*\])+)\s*=\s*\{', re.S)

# element types: values written in the initialiser are converted to the declared type by the C
# compiler, so the extractor applies the same conversion (a table emitted with too narrow a type
# is then seen by the validator the way the running scanner sees it)
WIDTHS = {'flex_int16_t': (16, True), 'flex_int32_t': (32, True), 'flex_int8_t': (8, True),
          'flex_uint8_t': (8, False), 'flex_uint16_t': (16, False), 'flex_uint32_t': (32, False),
          'YY_CHAR': (8, False), 'short': (16, True), 'int': (32, True), 'unsigned char': (8, False),
          'char': (8, True), 'int16_t': (16, True), 'int32_t': (32, True), 'uint8_t': (8, False),
          'uint16_t': (16, False), 'yy_state_type': (32, True), 'long': (64, True)}


def _conv(v, ty):
    w = WIDTHS.get(ty.strip().split()[-1] if ty.strip() not in WIDTHS else ty.strip())
    if w is None:
        return v
    bits, signed = w
    v &= (1 << bits) - 1
    if signed and v >= 1 << (bits - 1):
        v -= 1 << bits
    return v

def _match_brace(text, start):
    depth = 0
    i = start
    n = len(text)
    while i < n:
        c = text[i]
        if c == '{':
            depth += 1
        elif c == '}':
            depth -= 1
            if depth == 0:
                return i
        i += 1
    raise ValueError("unbalanced braces")

INT_RE = re.compile(r'-?\d+')

def extract(text):
    out = {'arrays': {}, 'consts': {}}
    for m in ARR_RE.finditer(text):
        ty = m.group(1)
        name = m.group(2)
        dims = m.group(3)
        lb = m.end() - 1
        rb = _match_brace(text, lb)
        body = text[lb + 1:rb]
        ndims = dims.count('[')
        if name == 'yy_start_state_list':
            out['arrays'][name] = [int(x) for x in re.findall(r'&\s*yy_transition\s*\[\s*(\d+)\s*\]', body)]
        elif name == 'yy_transition':
            recs = re.findall(r'\{\s*(-?\d+)\s*,\s*(-?\d+)\s*\}', body)
            out['arrays']['yy_transition_v'] = [int(a) for a, b in recs]
            out['arrays']['yy_transition_n'] = [int(b) for a, b in recs]
        elif ndims == 2:
            rows = re.findall(r'\{([^{}]*)\}', body)
            out['arrays'][name] = [[_conv(int(x), ty) for x in INT_RE.findall(r)] for r in rows]
        else:
            if '{' in body:
                continue
            out['arrays'][name] = [_conv(int(x), ty) for x in INT_RE.findall(body)]
            out.setdefault('types', {})[name] = ty
    for m in re.finditer(r'^\s*#\s*define\s+(YY_[A-Z_0-9]+)\s+\(?\s*(-?\d+)\s*\)?\s*$', text, re.M):
        out['consts'].setdefault(m.group(1), int(m.group(2)))
    for m in re.finditer(r'^\s*(?:static\s+)?const\s+\w+(?:\s+\w+)*\s+(YY_[A-Z_0-9]+)\s*=\s*(-?\d+)\s*;', text, re.M):
        out['consts'].setdefault(m.group(1), int(m.group(2)))
    return out

if __name__ == '__main__':
    t = extract(open(sys.argv[1], errors='replace').read())
    print(json.dumps({'consts': t['consts'], 'arrays': {k: (len(v)) for k, v in t['arrays'].items()}}, indent=1))

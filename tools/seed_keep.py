#!/usr/bin/env python3
"""usage: seed_keep.py <worktree> <seed-id> <property> <needs> <what> — store a confirmed seeded change"""
import sys, os, shutil, json, subprocess
wt, sid, prop, needs, what = sys.argv[1:6]
d = os.path.join('/verif/seeded', sid)
os.makedirs(d, exist_ok=True)
shutil.copy(os.path.join(wt, 'patch.diff'), os.path.join(d, 'patch.diff'))
if os.path.exists(os.path.join(wt, 'demo.sh')):
    shutil.copy(os.path.join(wt, 'demo.sh'), os.path.join(d, 'demo.sh'))
if os.path.isdir(os.path.join(wt, 'demo')):
    shutil.rmtree(os.path.join(d, 'demo'), ignore_errors=True)
    shutil.copytree(os.path.join(wt, 'demo'), os.path.join(d, 'demo'), ignore=shutil.ignore_patterns('*.o', '*.exe', 'a.out', '*.c.tmp'))
    # generated scanners and binaries are build output: keep sources only
    for root, _, files in os.walk(os.path.join(d, 'demo')):
        for f in files:
            p = os.path.join(root, f)
            if os.path.getsize(p) > 200000 or os.access(p, os.X_OK) and not f.endswith('.sh'):
                os.unlink(p)
json.dump({'breaks': prop, 'needs_to_manifest': needs, 'what': what,
           'confirmed': 'suite 257/257 with the change; demo.sh fails with it and passes without it (run in the scratch worktree)',
           'detected_by': {}}, open(os.path.join(d, 'meta.json'), 'w'), indent=1)
print('kept', d)

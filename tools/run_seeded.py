#!/usr/bin/env python3
"""Apply each seeded change to /repo, run the listed checks, undo; record which checks alarm.
usage: run_seeded.py [seed-id ...] [--checks C01,C02] [--tier quick]"""
import sys, os, json, subprocess, glob
args = [a for a in sys.argv[1:] if not a.startswith('--')]
opts = dict(a[2:].split('=', 1) for a in sys.argv[1:] if a.startswith('--') and '=' in a)
tier = opts.get('tier', 'quick')
seeds = args or sorted(os.path.basename(p) for p in glob.glob('/verif/seeded/*') if os.path.isdir(p))
for sid in seeds:
    d = os.path.join('/verif/seeded', sid)
    meta = json.load(open(os.path.join(d, 'meta.json')))
    checks = opts.get('checks', meta['breaks']).split(',')
    assert subprocess.run(['git', '-C', '/repo', 'diff', '--quiet']).returncode == 0, '/repo not clean'
    subprocess.run(['git', '-C', '/repo', 'apply', os.path.join(d, 'patch.diff')], check=True)
    try:
        for c in checks:
            p = subprocess.run(['/verif/check', c, '--tier', tier], stdout=subprocess.PIPE, stderr=subprocess.STDOUT, text=True)
            viol = [l for l in p.stdout.split('\n') if l.startswith('VIOLATION')]
            first = next((l.strip() for l in p.stdout.split('\n') if l.startswith('  ') and l.strip()), '')
            meta.setdefault('detected_by', {})[c] = {'alarm': p.returncode != 0, 'violations': len(viol), 'first': first[:300], 'tier': tier}
            print(sid, c, 'ALARM' if p.returncode != 0 else 'silent', len(viol), first[:160])
    finally:
        subprocess.run(['git', '-C', '/repo', 'checkout', '--', '.'], check=True)
    json.dump(meta, open(os.path.join(d, 'meta.json'), 'w'), indent=1)
# the checks regenerated lean/FlexVerif/Gen/*.lean from the changed trees: put back those of the clean tree
subprocess.run([sys.executable, os.path.join(os.path.dirname(os.path.abspath(__file__)), 'regen_all.py')], check=False)

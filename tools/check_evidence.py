#!/usr/bin/env python3
"""Before a commit: every evidence file must be the record of a clean run (schema-valid, no violations,
all obligations discharged) - the checks rewrite them on every run, seeded-change runs included."""
import json, glob, sys
try:
    import jsonschema
    schema = json.load(open('/root/.vp/EVIDENCE.schema.json'))
except Exception:
    jsonschema = None
bad = 0
for f in sorted(glob.glob('/verif/evidence/*.json')):
    e = json.load(open(f))
    msgs = []
    if jsonschema:
        try:
            jsonschema.validate(e, schema)
        except Exception as x:
            msgs.append('schema: ' + str(x)[:120])
    if e.get('violations'):
        msgs.append('violations=%s' % e['violations'])
    c = e.get('coverage', {})
    if 'obligations' in c and c.get('discharged') != c['obligations']:
        msgs.append('discharged %s of %s' % (c.get('discharged'), c['obligations']))
    fc = c.get('family_counts') or {}
    print(f.split('/')[-1], 'OK' if not msgs else 'BAD ' + '; '.join(msgs))
    bad |= bool(msgs)
sys.exit(bad)

#!/bin/sh
# usage: mk_worktree.sh <dir>   — a scratch git worktree of /repo that can be built and tested
set -e
D="$1"
git -C /repo worktree add --detach "$D" >/dev/null 2>&1
# bring over the configured build (ignored files: configure output, Makefiles, objects)
rsync -a --ignore-existing --exclude .git /repo/ "$D"/
find "$D" -name Makefile -print0 | xargs -0 sed -i "s|/repo/|$D/|g; s|= /repo\$|= $D|"
( cd "$D" && make -C src -j8 flex >/dev/null 2>&1 ) || true
echo "$D ready"
